// Plan (de)serialisation, rendering and the generic generators (sentences, lexemes).
#include "plan.hpp"
#include "specs_data.hpp"

#include <algorithm>
#include <memory>

namespace sim
{

uint64_t hash_seed(uint64_t seed, const std::string& property, int64_t index)
{
    uint64_t h = 0xcbf29ce484222325ull ^ seed;
    for (unsigned char c : property) { h ^= c; h *= 0x100000001b3ull; }
    h ^= uint64_t(index) * 0x9e3779b97f4a7c15ull;
    h ^= h >> 29; h *= 0xbf58476d1ce4e5b9ull; h ^= h >> 32;
    return h;
}

std::string hex(const std::string& s)
{
    static const char d[] = "0123456789abcdef";
    std::string r;
    for (unsigned char c : s) { r += d[c >> 4]; r += d[c & 15]; }
    return r;
}
std::string unhex(const std::string& s)
{
    auto v = [](char c) { return c <= '9' ? c - '0' : (c | 32) - 'a' + 10; };
    std::string r;
    for (size_t i = 0; i + 1 < s.size(); i += 2) r += char(v(s[i]) * 16 + v(s[i + 1]));
    return r;
}

// bytes are stored readable when they are plain printable ASCII, hex otherwise
static js::Value bytes_json(const std::string& s)
{
    bool plain = true;
    for (unsigned char c : s) if (c < 0x20 || c >= 0x7f || c == '"' || c == '\\') { plain = false; break; }
    js::Value o = js::Value::obj();
    if (plain) o.set("t", s); else o.set("x", hex(s));
    return o;
}
static std::string bytes_from(const js::Value& v)
{
    if (const js::Value* t = v.find("t")) return t->s;
    if (const js::Value* x = v.find("x")) return unhex(x->s);
    return "";
}

js::Value to_json(const Plan& p)
{
    js::Value v = js::Value::obj();
    v.set("seed", js::Value(int64_t(p.seed)));
    v.set("index", js::Value(p.index));
    v.set("property", p.property);
    v.set("mode", p.mode);
    if (p.share_streams) v.set("share_streams", true);
    if (p.share_options) v.set("share_options", true);
    if (p.interleaved_first) v.set("interleaved_first", true);
    js::Value tasks = js::Value::arr();
    for (const PlanTask& t : p.tasks)
    {
        js::Value ops = js::Value::arr();
        for (const PlanOp& o : t.ops)
        {
            js::Value j = js::Value::obj();
            j.set("parser", o.parser); j.set("api", o.api); j.set("heap", o.heap);
            j.set("buffer", o.buffer); j.set("stream", o.stream);
            j.set("verbose", o.verbose); j.set("skip_ws", o.skip_ws); j.set("skip_nl", o.skip_nl);
            if (o.use_raw) j.set("raw", bytes_json(o.raw));
            else
            {
                js::Value toks = js::Value::arr();
                for (const PTok& t2 : o.toks)
                {
                    js::Value tk = js::Value::obj();
                    tk.set("term", t2.term); tk.set("lex", bytes_json(t2.lex)); tk.set("ws", bytes_json(t2.ws));
                    toks.push(tk);
                }
                j.set("toks", toks);
                j.set("tail", bytes_json(o.tail));
            }
            js::Value fs = js::Value::arr();
            for (const Fault& f : o.faults)
            {
                js::Value fj = js::Value::obj();
                fj.set("kind", f.kind); fj.set("a", f.a); fj.set("b", f.b);
                if (!f.s.empty()) fj.set("s", bytes_json(f.s));
                fs.push(fj);
            }
            j.set("faults", fs);
            j.set("stream_fail_after", o.stream_fail_after); j.set("stream_fail_mode", o.stream_fail_mode);
            j.set("alloc_fail_at", o.alloc_fail_at); j.set("lex_fail_call", o.lex_fail_call);
            if (o.nest_at >= 0) j.set("nest_at", o.nest_at);
            ops.push(j);
        }
        js::Value tj = js::Value::obj();
        tj.set("ops", ops);
        tasks.push(tj);
    }
    v.set("tasks", tasks);
    js::Value sch = js::Value::arr();
    for (uint8_t e : p.schedule) sch.push(js::Value(int(e)));
    v.set("schedule", sch);
    return v;
}

Plan plan_from_json(const js::Value& v)
{
    Plan p;
    p.seed = uint64_t(v.num("seed")); p.index = v.num("index");
    p.property = v.str("property"); p.mode = v.str("mode");
    p.share_streams = v.boolean("share_streams", false);
    p.share_options = v.boolean("share_options", false);
    p.interleaved_first = v.boolean("interleaved_first", false);
    for (const js::Value& tj : v.at("tasks").a)
    {
        PlanTask t;
        for (const js::Value& j : tj.at("ops").a)
        {
            PlanOp o;
            o.parser = j.str("parser"); o.api = int(j.num("api")); o.heap = j.boolean("heap");
            o.buffer = int(j.num("buffer")); o.stream = int(j.num("stream"));
            o.verbose = j.boolean("verbose"); o.skip_ws = j.boolean("skip_ws", true); o.skip_nl = j.boolean("skip_nl", true);
            if (const js::Value* raw = j.find("raw")) { o.use_raw = true; o.raw = bytes_from(*raw); }
            else
            {
                if (const js::Value* toks = j.find("toks"))
                    for (const js::Value& tk : toks->a)
                    {
                        PTok t2; t2.term = int(tk.num("term")); t2.lex = bytes_from(tk.at("lex")); t2.ws = bytes_from(tk.at("ws"));
                        o.toks.push_back(t2);
                    }
                if (const js::Value* tail = j.find("tail")) o.tail = bytes_from(*tail);
            }
            if (const js::Value* fs = j.find("faults"))
                for (const js::Value& fj : fs->a)
                {
                    Fault f; f.kind = fj.str("kind"); f.a = fj.num("a"); f.b = fj.num("b");
                    if (const js::Value* s = fj.find("s")) f.s = bytes_from(*s);
                    o.faults.push_back(f);
                }
            o.stream_fail_after = j.num("stream_fail_after", -1); o.stream_fail_mode = int(j.num("stream_fail_mode"));
            o.alloc_fail_at = j.num("alloc_fail_at", -1); o.lex_fail_call = j.num("lex_fail_call", -1);
            o.nest_at = j.num("nest_at", -1);
            t.ops.push_back(o);
        }
        p.tasks.push_back(t);
    }
    if (const js::Value* sch = v.find("schedule"))
        for (const js::Value& e : sch->a) p.schedule.push_back(uint8_t(e.i));
    return p;
}

// ---------------------------------------------------------------------------------------------
Rendered render(const PlanOp& op, bool custom_lexer)
{
    Rendered r;
    std::vector<PTok> toks = op.toks;
    std::string tail = op.tail;
    auto fired = [&](const std::string& k) { ++r.faults_fired; ++r.fired[k]; };

    if (!op.use_raw)
    {
        // token-level faults first, in order
        for (const Fault& f : op.faults)
        {
            size_t n = toks.size();
            if (f.kind == "tok_drop") { if (n) { toks.erase(toks.begin() + long(uint64_t(f.a) % n)); fired(f.kind); } }
            else if (f.kind == "tok_dup") { if (n) { size_t i = size_t(uint64_t(f.a) % n); PTok t = toks[i]; if (t.ws.empty()) t.ws = " "; toks.insert(toks.begin() + long(i) + 1, t); fired(f.kind); } }
            else if (f.kind == "tok_swap") { if (n >= 2) { size_t i = size_t(uint64_t(f.a) % (n - 1)); std::swap(toks[i].term, toks[i + 1].term); std::swap(toks[i].lex, toks[i + 1].lex); fired(f.kind); } }
            else if (f.kind == "tok_ins") { size_t i = size_t(uint64_t(f.a) % (n + 1)); PTok t; t.term = int(f.b); t.lex = f.s; t.ws = " "; toks.insert(toks.begin() + long(i), t); fired(f.kind); }
            else if (f.kind == "ws") { if (n) { size_t i = size_t(uint64_t(f.a) % (n + 1)); if (i == n) tail = f.s; else toks[i].ws = f.s; fired(f.kind); } else { tail = f.s; fired(f.kind); } }
        }
        for (const PTok& t : toks)
        {
            r.bytes += t.ws;
            if (custom_lexer) r.script.push_back(ref::LexAns{ int64_t(r.bytes.size()), t.term, int64_t(t.lex.size()) });
            r.bytes += t.lex;
        }
        r.bytes += tail;
    }
    else
        r.bytes = op.raw;

    // byte-level faults
    for (const Fault& f : op.faults)
    {
        size_t n = r.bytes.size();
        if (f.kind == "flip") { if (n) { size_t i = size_t(uint64_t(f.a) % n); if (r.bytes[i] != char(f.b)) { r.bytes[i] = char(f.b); fired(f.kind); } } }
        else if (f.kind == "trunc") { size_t i = size_t(uint64_t(f.a) % (n + 1)); if (i < n) { r.bytes.resize(i); fired(f.kind); } }
        else if (f.kind == "ins") { size_t i = size_t(uint64_t(f.a) % (n + 1)); r.bytes.insert(i, f.s); if (!f.s.empty()) fired(f.kind); }
    }

    r.effective_buffer = op.buffer;
    if (op.buffer == BUF_CSTRING)
    {
        size_t n = r.bytes.size();
        int fit = 0;
        for (int s : CSTRING_SIZES) if (n + 1 <= size_t(s)) { fit = s; break; }
        if (fit && n + 1 < size_t(fit))
        {
            if (op.skip_ws) r.bytes.append(size_t(fit) - 1 - n, ' ');
            else fit = 0;
        }
        if (!fit) r.effective_buffer = BUF_STRING;
    }
    for (unsigned char c : r.bytes) if (c == 0 || c >= 0x80) { r.nul_or_high = true; break; }
    return r;
}

// ---------------------------------------------------------------------------------------------
const ref::Model* model_for(const std::string& grammar)
{
    static std::map<std::string, std::unique_ptr<ref::Model>> cache;
    auto it = cache.find(grammar);
    if (it != cache.end()) return it->second.get();
    for (const ref::GrammarSpec& g : ref::all_specs())
        if (g.id == grammar)
        {
            auto m = std::make_unique<ref::Model>(g);
            const ref::Model* p = m.get();
            cache[grammar] = std::move(m);
            return p;
        }
    cache[grammar] = nullptr;
    return nullptr;
}

const ref::Model* real_model_for(const std::string& key)
{
    static std::map<std::string, std::unique_ptr<ref::Model>> cache;
    std::string gname = grammar_of(key);
    auto it = cache.find(gname);
    if (it != cache.end()) return it->second.get();
    const ref::Model* canon = model_for(gname);
    const FleetEntry* fe = find_fleet(key);
    if (!canon || !fe || !fe->dump_table) { cache[gname] = nullptr; return nullptr; }
    RealTable rt;
    fe->dump_table(rt, canon->g.term_count(), int(canon->g.nterms.size()));
    auto m = std::make_unique<ref::Model>(canon->g);
    ref::Tables tb;
    tb.nstates = rt.nstates;
    for (int s = 0; s < rt.nstates; ++s)
    {
        tb.action.emplace_back();
        for (const auto& c : rt.action[size_t(s)])
        {
            ref::Action a;
            switch (c.first)
            {
            case 1: a.k = ref::Action::ACCEPT; break;
            case 2: case 3: a.k = ref::Action::SHIFT; a.arg = c.second; break;
            case 4: a.k = ref::Action::REDUCE; a.arg = c.second; break;
            case 5: a.k = ref::Action::REDUCE; a.arg = c.second; tb.rr_conflict = true; break;
            default: a.k = ref::Action::ERR; break;
            }
            tb.action.back().push_back(a);
        }
        tb.go.push_back(rt.go[size_t(s)]);
    }
    m->t = tb;
    if (fe->dump_dfa && !canon->g.custom_lexer)
    {
        RealDfa rd;
        fe->dump_dfa(rd);
        if (rd.nstates > 0)
        {
            m->dfa.reset(new ref::DfaLexer());
            m->dfa->nstates = rd.nstates; m->dfa->next = rd.next; m->dfa->recognized = rd.recognized;
        }
    }
    const ref::Model* p = m.get();
    cache[gname] = std::move(m);
    return p;
}

std::string grammar_of(const std::string& key)
{
    size_t d = key.find('.');
    return d == std::string::npos ? key : key.substr(0, d);
}

const std::string* regex_pattern(const std::string& id)
{
    for (const auto& p : ref::all_regexes()) if (p.first == id) return &p.second;
    return nullptr;
}

// ---------------------------------------------------------------------------------------------
std::string sample_regex(const ref::Re& re, Rng& rng, int loop_max)
{
    switch (re.k)
    {
    case ref::Re::SET:
    {
        // prefer printable members, sometimes any member (high bytes, control bytes)
        std::vector<int> pr, all;
        for (int c = 0; c < 256; ++c) if (re.set.test(size_t(c))) { all.push_back(c); if (c > 32 && c < 127) pr.push_back(c); }
        if (all.empty()) return "";
        if (!pr.empty() && !rng.chance(1, 8)) return std::string(1, char(rng.pick(pr)));
        return std::string(1, char(rng.pick(all)));
    }
    case ref::Re::CAT: return sample_regex(*re.ch[0], rng, loop_max) + sample_regex(*re.ch[1], rng, loop_max);
    case ref::Re::ALT: return sample_regex(*re.ch[rng.below(2)], rng, loop_max);
    case ref::Re::STAR: { std::string s; int n = rng.range(0, loop_max); for (int i = 0; i < n; ++i) s += sample_regex(*re.ch[0], rng, loop_max); return s; }
    case ref::Re::PLUS: { std::string s; int n = rng.range(1, loop_max + 1); for (int i = 0; i < n; ++i) s += sample_regex(*re.ch[0], rng, loop_max); return s; }
    case ref::Re::OPT: return rng.chance(1, 2) ? sample_regex(*re.ch[0], rng, loop_max) : std::string();
    case ref::Re::REP: { std::string s; for (int i = 0; i < re.n; ++i) s += sample_regex(*re.ch[0], rng, loop_max); return s; }
    }
    return "";
}

namespace
{
    struct SentenceGen
    {
        const ref::Model& m;
        Rng& rng;
        std::vector<int> min_len;          // per nterm: minimal number of terms derivable
        std::vector<int> rule_min;         // per rule
        std::vector<int> out;              // term indices
        int budget;

        SentenceGen(const ref::Model& m, Rng& rng, int budget) : m(m), rng(rng), budget(budget)
        {
            const auto& g = m.g;
            const int INF = 1 << 28;
            min_len.assign(g.nterms.size(), INF);
            rule_min.assign(g.rules.size(), INF);
            bool ch = true;
            while (ch)
            {
                ch = false;
                for (size_t r = 0; r < g.rules.size(); ++r)
                {
                    int sum = 0; bool ok = true;
                    for (const ref::Sym& s : g.rules[r].rhs)
                    {
                        if (s.term) { if (s.idx == g.err_idx()) { ok = false; break; } sum += 1; }
                        else { if (min_len[size_t(s.idx)] >= INF) { ok = false; break; } sum += min_len[size_t(s.idx)]; }
                    }
                    if (!ok) continue;
                    if (sum < rule_min[r]) { rule_min[r] = sum; ch = true; }
                    if (sum < min_len[size_t(g.rules[r].lhs)]) { min_len[size_t(g.rules[r].lhs)] = sum; ch = true; }
                }
            }
        }

        void expand(int nt, int depth)
        {
            const auto& g = m.g;
            std::vector<size_t> cands, minimal;
            for (size_t r = 0; r < g.rules.size(); ++r)
                if (g.rules[r].lhs == nt && rule_min[r] < (1 << 28))
                {
                    cands.push_back(r);
                    if (rule_min[r] == min_len[size_t(nt)]) minimal.push_back(r);
                }
            if (cands.empty()) return;
            size_t r;
            if (budget <= 0 || depth > 4000) r = minimal[size_t(rng.below(minimal.size()))];
            else
            {
                // while there is budget left, rules that grow the sentence are three times as likely as the minimal ones:
                // otherwise recursive structures end geometrically early whatever the budget
                std::vector<size_t> w;
                for (size_t c : cands) { w.push_back(c); if (rule_min[c] > min_len[size_t(nt)]) { w.push_back(c); w.push_back(c); } }
                r = w[size_t(rng.below(w.size()))];
            }
            for (const ref::Sym& s : g.rules[r].rhs)
            {
                if (s.term) { out.push_back(s.idx); --budget; }
                else expand(s.idx, depth + 1);
            }
        }
    };

    bool wordy(unsigned char c) { return (c >= '0' && c <= '9') || (c >= 'a' && c <= 'z') || (c >= 'A' && c <= 'Z') || c == '_' || c == '-' || c == '.'; }
}

std::vector<PTok> gen_sentence(const ref::Model& m, Rng& rng, int budget, bool ws_rich, bool skip_ws, bool skip_nl, bool dense)
{
    SentenceGen sg(m, rng, budget);
    sg.expand(m.g.root, 0);
    std::vector<PTok> toks;
    static const std::vector<std::string> ws_plain = { "", "", "", " ", " ", "  " };
    static const std::vector<std::string> ws_fancy = { "", " ", "\n", "\t", " \n ", "\r\n", "\n\n", " \t ", "\x0b", "\x0c", "\r", "   \n\t" };
    for (int t : sg.out)
    {
        PTok tk; tk.term = t;
        const ref::TermSpec& ts = m.g.terms[size_t(t)];
        if (ts.kind == ref::T_REGEX) tk.lex = sample_regex(*m.lexer->regexes()[size_t(t)], rng, 3);
        else if (ts.kind == ref::T_CUSTOM)
        {
            int n = rng.range(1, 4);
            for (int i = 0; i < n; ++i)
            {
                unsigned char c = rng.chance(1, 10) ? (unsigned char)rng.below(256) : (unsigned char)rng.range(33, 126);
                if (i > 0 && rng.chance(1, 16)) c = '\n';       // multi-line custom lexemes
                if (i == 0 && ref::is_ws(c, true)) c = 'q';
                tk.lex += char(c);
            }
        }
        else tk.lex = ts.data;
        if (tk.lex.empty()) tk.lex = ts.kind == ref::T_REGEX ? sample_regex(*m.lexer->regexes()[size_t(t)], rng, 1) : "?";
        std::string ws = dense ? std::string() : (ws_rich ? rng.pick(ws_fancy) : rng.pick(ws_plain));
        if (!skip_ws) ws.clear();
        else if (!skip_nl)
        {
            std::string w2; for (char c : ws) if (c != '\n') w2 += c; ws = w2;
        }
        // keep adjacent wordy lexemes apart (otherwise almost every sentence would be lexically different)
        if (!toks.empty() && ws.empty() && skip_ws && !toks.back().lex.empty() && wordy((unsigned char)toks.back().lex.back()) && wordy((unsigned char)tk.lex[0]))
            ws = " ";
        if (!toks.empty() && ws.empty() && skip_ws && !toks.back().lex.empty() && toks.back().lex.back() == tk.lex[0] && !wordy((unsigned char)tk.lex[0]))
            ws = " ";   // "=" "=" would become "=="
        if (m.g.terms[size_t(t)].kind == ref::T_CHAR && m.g.terms[size_t(t)].data == "\n") ws = (skip_ws && rng.chance(1, 2)) ? " " : "";
        tk.ws = ws;
        toks.push_back(tk);
    }
    return toks;
}

}  // namespace sim
