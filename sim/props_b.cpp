// Properties whose case is a base run plus derived runs: C14 (allocation-failure placements) and
// C16 (verbosity x stream matrix incl. stream-failure placements).
#include "props_common.hpp"

#include <algorithm>

namespace sim
{

static const ExecFlags kFlags{};

static std::string op_brief(const OpResult& o)
{
    return o.op.parser + " input='" + printable(o.rend.bytes, 120) + "' ws=" + (o.op.skip_ws ? "1" : "0") + " nl=" + (o.op.skip_nl ? "1" : "0") +
        " buf=" + std::to_string(o.rend.effective_buffer) + " stream=" + std::to_string(o.op.stream) + (o.op.verbose ? " verbose" : "") +
        (o.op.alloc_fail_at >= 0 ? " alloc_fail_at=" + std::to_string(o.op.alloc_fail_at) : "") +
        (o.op.stream_fail_after >= 0 ? " stream_fail_after=" + std::to_string(o.op.stream_fail_after) + "/" + std::to_string(o.op.stream_fail_mode) : "");
}

// ===============================================================================================
// C14 -- semantic values are moved, never duplicated, leaked or reused (DESIGN 6.5)
static Plan gen_c14(uint64_t seed, int64_t index, bool thorough)
{
    Rng rng(hash_seed(seed, "C14", index));
    // xnode (throwing move) only takes part with small inputs: std::vector itself copies such elements when it grows
    // (pnode: trivially destructible, so only its COPIES are visible to the ledger -- the fixed-capacity value stack)
    std::vector<std::string> pk = keys_for({ "G1", "G2", "G3", "G4", "G6", "G7", "G10", "G11", "G13", "G14", "G14", "G16", "G17", "G18", "G19", "G20", "G21", "G22", "G23", "G24", "G25", "G27", "G28", "T1" }, true, true);
    std::string key = rng.pick(pk);
    const ref::Model* m = model_for(grammar_of(key));
    OpShape sh;
    sh.budget = thorough ? 40 : 20;
    sh.p_skip_ws_off = 3; sh.p_skip_nl_off = 5;
    sh.buffers = { BUF_SIM, BUF_STRING, BUF_VIEW, BUF_CSTRING };
    sh.streams = { STR_SIM, STR_NONE, STR_OSS };
    sh.p_verbose = 10;
    sh.allow_heap = true;
    PlanOp op;
    std::string mode;
    uint64_t k = rng.below(100);
    std::vector<std::string> xkeys;
    for (const std::string& kk : pk) if (kk.size() > 6 && kk.compare(kk.size() - 6, 6, ".xnode") == 0) xkeys.push_back(kk);
    if (!xkeys.empty() && rng.chance(1, 14))
    {
        // a value type whose move constructor may throw, on inputs of one to three terms: the stacks hold more entries than
        // the input has characters (empty reductions, the error symbol), so a reservation derived from the input's length
        // instead of the documented 1024 makes std::vector grow - and copy - at once (S63)
        mode = "throwing_move_tiny_input";
        key = rng.pick(xkeys);
        m = model_for(grammar_of(key));
        sh.budget = rng.range(1, 3); sh.buffers = { BUF_SIM, BUF_STRING, BUF_VIEW };
        op = make_sentence_op(rng, key, sh);
        if (rng.chance(1, 2)) add_token_faults(op, rng, 1, *m);
    }
    else if (k < 20) { mode = "fault_free"; op = make_sentence_op(rng, key, sh); }
    else if (k < 55)
    {
        mode = "input_faults";
        op = make_sentence_op(rng, key, sh);
        if (rng.chance(2, 3)) add_token_faults(op, rng, rng.range(1, 3), *m); else add_byte_faults(op, rng, rng.range(1, 2), m);
    }
    else if (k < 92)
    {
        mode = "alloc_enum";
        sh.budget = thorough ? 24 : 12;
        op = make_sentence_op(rng, key, sh);
        if (rng.chance(1, 2)) add_token_faults(op, rng, rng.range(1, 2), *m);
    }
    else if (k < 97)
    {
        mode = "deep";      // the std::vector stacks cross their reserved capacity at every possible phase of a reduction
        sh.budget = 4; sh.buffers = { BUF_SIM, BUF_STRING, BUF_VIEW }; sh.p_verbose = 0; sh.p_skip_ws_off = 0;
        std::vector<std::string> dk = keys_for({ "G1", "G2", "G3", "G4", "G6", "G7", "G11" }, false);
        key = rng.pick(dk);
        op = make_sentence_op(rng, key, sh);
        int target = thorough ? int(rng.pick(std::vector<int>{ 1024, 1024, 2048, 4096, 65536 })) : int(rng.pick(std::vector<int>{ 1024, 1024, 1024, 2048 }));
        if (rng.chance(1, 10)) target = 65536 + 24;      // indices beyond 16 bits
        if (!make_deep_op(op, rng, key, target)) mode = "fault_free";
    }
    else
    {
        mode = "grow";      // growth of the std::vector stacks past their reserved 1024 entries
        sh.budget = thorough ? 6000 : 2600;
        sh.buffers = { BUF_SIM, BUF_STRING };
        sh.p_verbose = 0;
        std::vector<std::string> deep = keys_for({ "G2", "G3", "G4" }, false);
        key = rng.pick(deep);
        op = make_sentence_op(rng, key, sh);
        for (int tries = 0; tries < 6 && int(op.toks.size()) < 1200; ++tries) op = make_sentence_op(rng, key, sh);
    }
    if (rng.chance(1, 3)) op.api = rng.chance(1, 3) ? API_CONTEXT_PARSE_TEMP : API_CONTEXT_PARSE;
    return single_op_plan("C14", seed, index, mode, op);
}

static void judge_ledger(const Plan& p, const OpResult& o, std::vector<Violation>& vs, CaseCtx& cx)
{
    const simrt::OpRec& r = o.rec;
    std::string brief = op_brief(o);
    std::string counts = " [new=" + std::to_string(r.n_new) + " move=" + std::to_string(r.n_move) + " copy=" + std::to_string(r.n_copy) + " del=" + std::to_string(r.n_del) + " use=" + std::to_string(r.n_use) + "]";
    if (r.double_del) vs.push_back(make_violation("C14", "destroyed_twice", "a value or object was destroyed twice (" + std::to_string(r.double_del) + "x)" + counts + "; " + brief, p));
    if (r.ctor_over_live) vs.push_back(make_violation("C14", "constructed_over_live_object", "construction over a live object" + counts + "; " + brief, p));
    if (r.use_twice) vs.push_back(make_violation("C14", "value_consumed_twice", "one value was handed to two functor calls" + counts + "; " + brief, p));
    if (r.use_moved_from) vs.push_back(make_violation("C14", "moved_from_value_handed_to_functor", "a functor received a moved-from value" + counts + "; " + brief, p));
    if (r.use_dead) vs.push_back(make_violation("C14", "destroyed_value_used", "a destroyed value was used" + counts + "; " + brief, p));
    if (r.arg_lvalue) vs.push_back(make_violation("C14", "argument_not_movable", "a functor received " + std::to_string(r.arg_lvalue) + " value(s) as lvalues: a by-value parameter would copy them, a move-only value type would not compile" + counts + "; " + brief, p));
    if (r.copy_in_lib) vs.push_back(make_violation("C14", "value_copied", "the library copied a semantic value " + std::to_string(r.copy_in_lib) + "x instead of moving it" + counts + "; " + brief, p));
    if (o.out.exc == 5)
        vs.push_back(make_violation("C14", "value_of_wrong_kind_handed_to_reduction", "std::bad_variant_access escaped: a reduction was handed a stack slot that does not hold the value it consumes (stale or misplaced value)" + counts + "; " + brief, p));
    bool exceptional = o.out.exc != 0;
    if (!exceptional && r.live_after != 0)
        vs.push_back(make_violation("C14", "value_leaked", std::to_string(r.live_after) + " object(s) still alive after the call returned and its result was dropped" + counts + "; " + brief, p));
    // a call that leaves by exception is a call that failed: what it created must be gone when the exception has left it
    // (round 0 only observed this; it has held on every one of the ~10^5 exceptional exits per batch, and S45 shows what
    // not gating it lets through)
    if (exceptional && o.out.exc != 2 && r.live_after != 0)
        vs.push_back(make_violation("C14", "value_leaked_on_exception", std::to_string(r.live_after) + " object(s) still alive after the call was left by an exception (exc kind " + std::to_string(o.out.exc) + ")" + counts + "; " + brief, p));
    if (cx.st)
    {
        Stats& st = *cx.st;
        st.add("values_created", r.n_new);
        st.add("values_moved", r.n_move);
        st.add("functor_argument_uses", r.n_use);
        if (exceptional && r.live_after == 0) st.add("observation.ledger_balanced_on_exceptional_exit");
        if (exceptional && r.live_after != 0) st.add("observation.ledger_unbalanced_on_exceptional_exit");
        if (r.alloc_fault_in_functor) st.add("probe.allocation_failed_inside_functor");
        if (r.alloc_fault_fired && !r.alloc_fault_in_functor) st.add("probe.allocation_failed_inside_library");
    }
}

static std::vector<Violation> case_c14(const Plan& p, CaseCtx& cx)
{
    std::vector<Violation> vs;
    RunResult rr = exec_plan(p, kFlags);
    const OpResult& o = rr.tasks[0][0];
    account(cx, p, rr, o.rend.faults_fired > 0 || o.rec.alloc_fault_fired || p.mode == "grow" || p.mode == "deep");
    if (cx.st)
    {
        cx.st->add("mode." + p.mode);
        if (o.out.exc == 0)
        {
            ref::RefResult r = ref_for(o);
            if (r.accepted && r.syntax_errors == 0) cx.st->add("path.success");
            else if (r.accepted) cx.st->add("path.recovered");
            else if (r.syntax_errors && o.model->g.has_error_rules) cx.st->add("path.recovery_failed");
            else cx.st->add("path.failure");
            if (r.discarded_terms || r.rec_pops_max > 0) cx.st->add("probe.values_discarded_during_recovery");
            if (r.max_depth > 1024) cx.st->add("probe.stack_growth_past_initial_capacity");
        }
    }
    judge_ledger(p, o, vs, cx);
    if (p.mode != "alloc_enum" || !vs.empty()) return vs;
    // every allocation of the fault-free run fails once (exhaustive when below the cap, else seeded sample)
    int64_t A = o.rec.allocs;
    int64_t cap = cx.thorough ? 200 : 64;
    std::vector<int64_t> ks;
    if (A <= cap) { for (int64_t k = 0; k < A; ++k) ks.push_back(k); if (cx.st) cx.st->add("alloc_enum.exhaustive_cases"); }
    else
    {
        Rng rng(hash_seed(p.seed, "C14.alloc", p.index));
        for (int64_t i = 0; i < cap; ++i) ks.push_back(int64_t(rng.below(uint64_t(A))));
        std::sort(ks.begin(), ks.end()); ks.erase(std::unique(ks.begin(), ks.end()), ks.end());
        if (cx.st) cx.st->add("alloc_enum.sampled_cases");
    }
    for (int64_t k : ks)
    {
        Plan d = p;
        d.mode = "alloc_single";
        d.tasks[0].ops[0].alloc_fail_at = k;
        RunResult r2 = exec_plan(d, kFlags);
        const OpResult& o2 = r2.tasks[0][0];
        account(cx, d, r2, o2.rec.alloc_fault_fired);
        if (cx.st) cx.st->add("mode.alloc_single");
        judge_ledger(d, o2, vs, cx);
        if (!vs.empty()) break;
    }
    return vs;
}

// ===============================================================================================
// C16 -- verbosity and stream choice never change the outcome; the trace is truthful (DESIGN 6.7)
static Plan gen_c16(uint64_t seed, int64_t index, bool thorough)
{
    Rng rng(hash_seed(seed, "C16", index));
    std::vector<std::string> pk = keys_for({ "G1", "G2", "G3", "G4", "G5", "G6", "G7", "G8", "G9", "G10", "G11", "G12", "G13", "G14", "G15", "G16", "G17", "G18", "G19", "G20", "G21", "G22", "G23", "G24", "G25", "G27", "G28", "T1" });
    std::string key = rng.pick(pk);
    { std::vector<std::string> xk = random_grammar_keys(); if (!xk.empty() && rng.chance(1, 2)) key = rng.pick(xk); }   // thorough tier: seeded random grammars
    const ref::Model* m = model_for(grammar_of(key));
    OpShape sh;
    sh.allow_heap = true;
    sh.budget = thorough ? 30 : 14;
    sh.ws_rich = rng.chance(1, 3);
    sh.buffers = { BUF_SIM, BUF_STRING, BUF_VIEW, BUF_CSTRING };
    sh.streams = { STR_SIM };
    PlanOp op = make_sentence_op(rng, key, sh);
    // lexemes normally contain no '\n' here (a Shift line would not be parseable unambiguously). One case in six keeps or
    // makes multi-line lexemes: the trace is then left unjudged, the comparison of OUTCOMES across verbosity and stream
    // kinds (the values the functors saw included) stays - a trace routine that edits the lexeme it prints is seen (S103)
    if (rng.chance(1, 6))
    {
        if (m->g.custom_lexer && !op.toks.empty())
        {
            PTok& t = op.toks[size_t(rng.below(op.toks.size()))];
            if (t.lex.size() >= 2) t.lex[size_t(rng.range(1, int(t.lex.size()) - 1))] = '\n'; else t.lex += "\nq";
        }
    }
    else
        for (PTok& t : op.toks) for (char& c : t.lex) if (c == '\n') c = '?';
    std::string mode;
    uint64_t k = rng.below(100);
    if (k < 35) mode = "valid";
    else if (k < 75) { mode = "token_faults"; add_token_faults(op, rng, rng.range(1, 3), *m); }
    else { mode = "byte_faults"; add_byte_faults(op, rng, rng.range(1, 2), m); }
    if (rng.chance(1, 3)) op.api = rng.chance(1, 2) ? API_CONTEXT_PARSE_TEMP : API_CONTEXT_PARSE;
    if (m->g.custom_lexer && rng.chance(1, 4)) op.lex_fail_call = int64_t(rng.below(op.toks.size() + 1));
    if (rng.chance(1, 20))
    {
        // a cstring_buffer literal filled with openers: the fixed-capacity stacks are (nearly) exhausted or overrun. Whatever
        // happens then - a value, a message, the library's capacity exception - must be the same for every stream kind and
        // verbosity (S120: a driver that picks its stack type from the STREAM type)
        static const std::vector<std::pair<const char*, const char*>> openers = { { "G3", "x" }, { "G5", "{" }, { "G7", "{" }, { "G11", "(" }, { "G16", "x" } };
        const auto& oc = openers[size_t(rng.below(openers.size()))];
        std::vector<std::string> fk = keys_for({ oc.first });
        if (!fk.empty())
        {
            key = rng.pick(fk);
            OpShape s2 = sh; s2.budget = 0; s2.p_skip_ws_off = 0;
            op = make_sentence_op(rng, key, s2);
            op.toks.clear(); op.tail.clear(); op.faults.clear(); op.use_raw = true; op.raw.clear(); op.buffer = BUF_CSTRING; op.heap = false;
            int N = CSTRING_SIZES[rng.below(3)];
            int fill = N - 1 - int(rng.below(3));
            while (int(op.raw.size()) + int(std::string(oc.second).size()) <= fill) op.raw += oc.second;
            mode = "fixed_stack_pressure";
        }
    }
    return single_op_plan("C16", seed, index, mode, op);
}

struct Obs
{
    bool has_value; uint64_t digest; int exc;
    std::vector<std::pair<int, uint64_t>> reds;
    std::vector<int> red_ctx;            // how each contextual functor received its context (value category)
    std::vector<std::pair<int, int64_t>> termfs;
    uint64_t ctx_acc; int ctx_touches;
    bool operator==(const Obs& o) const
    {
        return has_value == o.has_value && digest == o.digest && exc == o.exc && reds == o.reds && red_ctx == o.red_ctx && termfs == o.termfs && ctx_acc == o.ctx_acc && ctx_touches == o.ctx_touches;
    }
};
static Obs observe(const OpResult& o)
{
    Obs b;
    b.has_value = o.out.has_value; b.digest = o.out.digest; b.exc = o.out.exc;
    for (const auto& r : o.rec.reds) { b.reds.emplace_back(r.rule, r.digest); b.red_ctx.push_back(r.ctx); }
    for (const auto& t : o.rec.termfs) b.termfs.emplace_back(t.term, t.off);
    b.ctx_acc = o.out.ctx_acc; b.ctx_touches = o.out.ctx_touches;
    return b;
}
static std::string obs_diff(const Obs& a, const Obs& b)
{
    if (a.has_value != b.has_value) return "has_value differs";
    if (a.exc != b.exc) return "exception state differs";
    if (a.digest != b.digest) return "result value differs";
    if (a.reds != b.reds) return "sequence of functor calls differs (" + std::to_string(a.reds.size()) + " vs " + std::to_string(b.reds.size()) + ")";
    if (a.red_ctx != b.red_ctx) return "a contextual functor received its context with a different value category (lvalue vs rvalue)";
    if (a.termfs != b.termfs) return "sequence of term-functor calls differs";
    return "context effects differ";
}

static std::vector<std::string> split_lines(const std::string& s)
{
    std::vector<std::string> r;
    size_t i = 0;
    while (i < s.size())
    {
        size_t e = s.find('\n', i);
        if (e == std::string::npos) { r.push_back(s.substr(i)); break; }
        r.push_back(s.substr(i, e - i + 1));
        i = e + 1;
    }
    return r;
}

static std::vector<Violation> case_c16(const Plan& p, CaseCtx& cx)
{
    std::vector<Violation> vs;
    auto variant = [&](bool verbose, int stream, int64_t fail_after, int fail_mode) -> Plan
    {
        Plan d = p;
        PlanOp& o = d.tasks[0].ops[0];
        o.verbose = verbose; o.stream = stream; o.stream_fail_after = fail_after; o.stream_fail_mode = fail_mode;
        return d;
    };
    // reference configuration: quiet, no stream
    Plan pA = variant(false, STR_NONE, -1, 0);
    RunResult rA = exec_plan(pA, kFlags);
    account(cx, pA, rA, rA.tasks[0][0].rend.faults_fired > 0);
    const OpResult oA = rA.tasks[0][0];
    if (oA.out.exc == 2) return vs;
    Obs A = observe(oA);
    std::string brief = op_brief(oA);
    if (cx.st) cx.st->add("mode." + p.mode);

    auto check_same = [&](const char* what, const Plan& dp, const OpResult& o) -> bool
    {
        Obs B = observe(o);
        if (B == A) return true;
        vs.push_back(make_violation("C16", "outcome_depends_on_options",
            std::string("outcome under ") + what + " differs from quiet/no_stream: " + obs_diff(A, B) + "; " + op_brief(o), p));
        (void)dp;
        return false;
    };

    Plan pB = variant(false, STR_SIM, -1, 0);
    RunResult rB = exec_plan(pB, kFlags); account(cx, pB, rB, false);
    const OpResult oB = rB.tasks[0][0];
    if (!check_same("quiet/ostream", pB, oB)) return vs;

    Plan pC = variant(true, STR_SIM, -1, 0);
    RunResult rC = exec_plan(pC, kFlags); account(cx, pC, rC, false);
    const OpResult oC = rC.tasks[0][0];
    if (!check_same("verbose/ostream", pC, oC)) return vs;

    Plan pD = variant(true, STR_NONE, -1, 0);
    RunResult rD = exec_plan(pD, kFlags); account(cx, pD, rD, false);
    if (!check_same("verbose/no_stream", pD, rD.tasks[0][0])) return vs;

    Plan pE = variant(true, STR_OSS, -1, 0);
    RunResult rE = exec_plan(pE, kFlags); account(cx, pE, rE, false);
    const OpResult oE = rE.tasks[0][0];
    if (!check_same("verbose/std::ostringstream", pE, oE)) return vs;
    if (oE.out.oss_text != oC.rec.wrote)
    {
        vs.push_back(make_violation("C16", "stream_type_changes_text", "verbose text differs between two std::ostream targets; " + brief, p));
        return vs;
    }

    const std::string& quiet = oB.rec.wrote;
    const std::string& loud = oC.rec.wrote;

    // (b) the non-verbose messages appear unchanged, in order, among the verbose lines
    // (a call that left by exception -- fixed-capacity overrun -- has no complete trace to judge; (a) above still applied)
    if (oA.out.exc != 0) { if (cx.st) cx.st->add("unjudged.trace_of_a_call_that_threw"); }
    else
    {
        ref::RefResult r = ref_for(oC);
        // message boundaries come from the reference when it agrees on the quiet text; otherwise split on '\n'
        std::vector<std::string> msgs;
        std::string cat; for (const std::string& m : r.messages) cat += m;
        if (cat == quiet) msgs = r.messages; else msgs = split_lines(quiet);
        size_t pos = 0; bool ok = true; std::string missing;
        for (const std::string& m : msgs)
        {
            size_t f = loud.find(m, pos);
            // must start at a line start
            while (f != std::string::npos && f != 0 && loud[f - 1] != '\n') f = loud.find(m, f + 1);
            if (f == std::string::npos) { ok = false; missing = m; break; }
            pos = f + m.size();
        }
        if (!ok)
        {
            vs.push_back(make_violation("C16", "message_missing_in_verbose_output", "the non-verbose message '" + printable(missing) + "' does not appear (in order) in the verbose output; " + brief, p));
            return vs;
        }
        if (cx.st && !msgs.empty()) cx.st->add("messages_located_in_trace", int64_t(msgs.size()));

        // (c) truthfulness
        bool newline_in_lexeme = false;
        for (const ref::Token& t : r.tokens) for (int64_t i = 0; i < t.len; ++i) if (oC.rend.bytes[size_t(t.off + i)] == '\n') newline_in_lexeme = true;
        std::vector<TraceLine> tl; std::string perr;
        if (newline_in_lexeme) { if (cx.st) cx.st->add("unjudged.newline_inside_lexeme"); }
        else if (!parse_trace(loud, tl, perr))
        {
            vs.push_back(make_violation("C16", "trace_unparseable", "verbose output is not a sequence of trace records: " + perr + "; " + brief, p));
            return vs;
        }
        else
        {
            // (c1) against the callback seam: reductions traced == functors run (rules that have a functor)
            std::vector<int> traced, called;
            const ref::GrammarSpec& g = oC.model->g;
            for (const TraceLine& t : tl)
                if (t.k == TraceLine::REDUCE && t.n >= 0 && size_t(t.n) < g.rules.size() && (g.rules[size_t(t.n)].ftor == ref::F_PLAIN || g.rules[size_t(t.n)].ftor == ref::F_CTX || g.rules[size_t(t.n)].ftor == ref::F_TOKREF)) traced.push_back(int(t.n));
            for (const auto& rd : oC.rec.reds) called.push_back(rd.rule);
            if (traced != called)
            {
                size_t i = 0; while (i < traced.size() && i < called.size() && traced[i] == called[i]) ++i;
                vs.push_back(make_violation("C16", "trace_disagrees_with_callbacks",
                    "reductions in the trace and functor calls differ at #" + std::to_string(i) + " (trace " + (i < traced.size() ? "rule " + std::to_string(traced[i]) : std::string("ends")) +
                    ", callbacks " + (i < called.size() ? "rule " + std::to_string(called[i]) : std::string("end")) + "); " + brief, p));
                return vs;
            }
            if (g.custom_lexer)
            {
                int64_t rec = 0, answered = 0;
                for (const TraceLine& t : tl) if (t.k == TraceLine::RECOGNIZED && t.s != "<eof>") ++rec;
                for (const auto& lx : oC.rec.lexes) if (lx.idx >= 0) ++answered;
                if (rec != answered)
                {
                    vs.push_back(make_violation("C16", "trace_disagrees_with_callbacks", "trace shows " + std::to_string(rec) + " recognised terms, the lexer delivered " + std::to_string(answered) + "; " + brief, p));
                    return vs;
                }
            }
            if (cx.st) cx.st->add("trace_reductions_checked_against_callbacks", int64_t(traced.size()));

            // (c2) against the documented driver run over the parser's own table
            if (!r.step_limit)
            {
                struct A4 { int k; int64_t n; std::string s; };
                std::vector<A4> got, want;
                bool eof_seen = false;
                for (const TraceLine& t : tl)
                {
                    if (t.k == TraceLine::RECOGNIZED) { if (t.s == "<eof>") { if (eof_seen) continue; eof_seen = true; } got.push_back(A4{ 0, 0, t.s }); }
                    else if (t.k == TraceLine::SHIFT) got.push_back(A4{ 1, t.n, t.s });
                    else if (t.k == TraceLine::REDUCE) got.push_back(A4{ 2, t.n, "" });
                    else if (t.k == TraceLine::GOTO) got.push_back(A4{ 3, t.n, "" });
                }
                for (const ref::Act& a : r.acts)
                {
                    if (a.k == ref::Act::RECOGNIZED) want.push_back(A4{ 0, 0, a.s });
                    else if (a.k == ref::Act::SHIFT || a.k == ref::Act::SHIFT_ERR) want.push_back(A4{ 1, a.a, a.s });
                    else if (a.k == ref::Act::REDUCE) want.push_back(A4{ 2, a.a, "" });
                    else if (a.k == ref::Act::GOTO) want.push_back(A4{ 3, a.a, "" });
                }
                size_t i = 0;
                while (i < got.size() && i < want.size() && got[i].k == want[i].k && got[i].n == want[i].n && got[i].s == want[i].s) ++i;
                if (i < got.size() || i < want.size())
                {
                    static const char* const kn[] = { "Recognized", "Shift", "Reduce", "Goto" };
                    auto d = [&](const std::vector<A4>& v) { return i < v.size() ? std::string(kn[v[i].k]) + " " + std::to_string(v[i].n) + " '" + printable(v[i].s, 40) + "'" : std::string("<end>"); };
                    vs.push_back(make_violation("C16", "trace_disagrees_with_actions",
                        "action #" + std::to_string(i) + ": trace says " + d(got) + ", the driver over the parser's own table does " + d(want) + "; " + brief, p));
                    return vs;
                }
                if (cx.st) cx.st->add("trace_actions_checked_against_model", int64_t(got.size()));
            }
        }
    }

    // (b') the stream object itself must not carry anything over: a caller's long-lived stream used for a verbose call
    // and then for a quiet one (and the other way round) shows exactly the texts the fresh streams showed
    {
        for (int order = 0; order < 2; ++order)
        {
            Plan d = p;
            d.share_streams = true;
            PlanOp o1 = p.tasks[0].ops[0], o2 = p.tasks[0].ops[0];
            o1.stream = STR_SIM; o2.stream = STR_SIM; o1.stream_fail_after = -1; o2.stream_fail_after = -1;
            o1.verbose = (order == 0); o2.verbose = (order != 0);
            d.tasks[0].ops.clear(); d.tasks[0].ops.push_back(o1); d.tasks[0].ops.push_back(o2);
            RunResult r2 = exec_plan(d, kFlags); account(cx, d, r2, false);
            const std::string& second = r2.tasks[0][1].rec.wrote;
            const std::string& expect = (order == 0) ? quiet : loud;
            if (second != expect || !(observe(r2.tasks[0][1]) == A))
            {
                vs.push_back(make_violation("C16", "stream_object_carries_state_between_calls",
                    std::string("after a ") + (order == 0 ? "verbose" : "quiet") + " call on the same std::ostream object the " + (order == 0 ? "quiet" : "verbose") +
                    " call wrote '" + printable(second, 160) + "' instead of '" + printable(expect, 160) + "'; " + brief, p));
                return vs;
            }
            if (cx.st) cx.st->add("same_stream_object_reused_checked");
        }
    }

    // (d) stream failures: anywhere, any way -- the outcome must not change
    {
        std::vector<std::pair<int64_t, int>> cuts;
        cuts.emplace_back(0, 0); cuts.emplace_back(0, 1);
        size_t cap = cx.thorough ? 40 : 10;
        std::vector<int64_t> bounds;
        for (size_t i = 0; i < loud.size(); ++i) if (loud[i] == '\n') bounds.push_back(int64_t(i) + 1);
        Rng rng(hash_seed(p.seed, "C16.cuts", p.index));
        if (bounds.size() + 2 <= cap) { for (int64_t b : bounds) cuts.emplace_back(b, int(rng.below(2))); if (cx.st) cx.st->add("stream_fail.line_boundaries_exhaustive"); }
        else for (size_t i = 0; i < cap / 2; ++i) cuts.emplace_back(bounds[size_t(rng.below(bounds.size()))], int(rng.below(2)));
        for (size_t i = 0; i < cap / 2 && !loud.empty(); ++i) cuts.emplace_back(int64_t(rng.below(loud.size())), int(rng.below(2)));
        for (const auto& c : cuts)
        {
            bool verbose = !(c.first == 0 && quiet.size() > 0 && rng.chance(1, 2));
            Plan d = variant(verbose, STR_SIM, c.first, c.second);
            RunResult r2 = exec_plan(d, kFlags);
            const OpResult& o2 = r2.tasks[0][0];
            account(cx, d, r2, o2.rec.wr_failed);
            Obs B = observe(o2);
            if (!(B == A))
            {
                vs.push_back(make_violation("C16", "outcome_depends_on_stream_state",
                    "stream failing after " + std::to_string(c.first) + " byte(s) (mode " + std::to_string(c.second) + ") changed the outcome: " + obs_diff(A, B) + "; " + op_brief(o2), p));
                return vs;
            }
            if (cx.st)
            {
                const std::string& full = verbose ? loud : quiet;
                if (o2.rec.wr_failed) { bool mid = c.first > 0 && size_t(c.first) < full.size() && full[size_t(c.first) - 1] != '\n'; if (mid) cx.st->add("probe.stream_failed_in_the_middle_of_a_message"); }
                if (o2.rec.wrote.size() <= full.size() && full.compare(0, o2.rec.wrote.size(), o2.rec.wrote) == 0) cx.st->add("observation.accepted_bytes_are_prefix_of_healthy_output");
                else cx.st->add("observation.accepted_bytes_not_a_prefix");
            }
        }
    }
    return vs;
}

// ===============================================================================================
extern const Property kPropsB[] = {
    { "C14", &gen_c14, &case_c14 },
    { "C16", &gen_c16, &case_c16 },
};
extern const int kPropsBCount = 2;

}  // namespace sim
