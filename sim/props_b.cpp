#include "props_common.hpp"
namespace sim {
extern const Property kPropsB[] = { { "", nullptr, nullptr } };
extern const int kPropsBCount = 0;
}
