#include "execp.hpp"
#include "seams_stream.hpp"

#include <cstring>
#include <memory>

namespace sim
{

static std::vector<FleetEntry>& fleet_store() { static std::vector<FleetEntry> v; return v; }
void register_fleet(const FleetEntry& e) { fleet_store().push_back(e); }
const std::vector<FleetEntry>& fleet() { return fleet_store(); }
const FleetEntry* find_fleet(const std::string& key)
{
    for (const FleetEntry& e : fleet_store()) if (key == e.key) return &e;
    return nullptr;
}

namespace
{
    struct TaskWork
    {
        std::vector<ExecOp> ops;
        std::vector<const FleetEntry*> entries;
        std::vector<Outcome> outs;
        std::unique_ptr<SharedSimStream> shared;
        alignas(16) unsigned char opts_storage[64] = {};   // the task's parse_options object lives here (plan.share_options)     // one long-lived std::ostream per task (plan.share_streams)
    };
    struct RunWork { std::vector<TaskWork> tasks; };

    void task_body(int task, void* arg)
    {
        RunWork* w = static_cast<RunWork*>(arg);
        TaskWork& t = w->tasks[size_t(task)];
        for (size_t i = 0; i < t.ops.size(); ++i)
            if (t.entries[i] && !simrt::task_ops(task)[i].ran_nested) t.entries[i]->fn(t.ops[i], t.outs[i]);
    }

    void nested_body(void* arg, int task, int op)
    {
        RunWork* w = static_cast<RunWork*>(arg);
        TaskWork& t = w->tasks[size_t(task)];
        if (op >= 0 && size_t(op) < t.ops.size() && t.entries[size_t(op)]) t.entries[size_t(op)]->fn(t.ops[size_t(op)], t.outs[size_t(op)]);
    }
}

RunResult exec_plan(const Plan& p, const ExecFlags& f)
{
    RunResult rr;
    int nt = int(p.tasks.size());
    simrt::reset_run(nt, p.schedule, f.record_events);
    RunWork w;
    w.tasks.resize(size_t(nt));
    rr.tasks.resize(size_t(nt));
    for (int t = 0; t < nt; ++t)
    {
        const PlanTask& pt = p.tasks[size_t(t)];
        TaskWork& tw = w.tasks[size_t(t)];
        for (size_t i = 0; i < pt.ops.size(); ++i)
        {
            const PlanOp& po = pt.ops[i];
            OpResult orr;
            orr.op = po;
            std::string gname = grammar_of(po.parser);
            orr.model = model_for(gname);
            orr.rmodel = real_model_for(po.parser);
            orr.custom_lexer = orr.model && orr.model->g.custom_lexer;
            orr.rend = render(po, orr.custom_lexer);
            ExecOp eo;
            eo.api = po.api; eo.heap_instance = po.heap; eo.buffer = orr.rend.effective_buffer; eo.stream = po.stream;
            eo.verbose = po.verbose; eo.skip_ws = po.skip_ws; eo.skip_nl = po.skip_nl;
            eo.input = orr.rend.bytes; eo.op_index = int(i); eo.hash_image = p.hash_images;
            simrt::OpRec& rec = simrt::new_op(t);
            rec.wr_quota = po.stream_fail_after; rec.wr_fail_mode = po.stream_fail_mode;
            rec.alloc_fail_at = po.alloc_fail_at;
            rec.lex_fail_call = po.lex_fail_call;
            rec.nest_at = po.nest_at;
            for (const ref::LexAns& a : orr.rend.script) rec.script.push_back(simrt::LexAnswer{ a.pos, a.idx, a.len });
            // budgets (bounded termination): generous multiples of the size of the input; the properties
            // that judge termination tighten them from the reference's own step count
            int64_t n = int64_t(eo.input.size());
            rec.step_budget = 4096 + 64 * n;
            rec.rd_budget = 65536 + 64 * n;      // reads+advances, and lexer steps: a correct driver is linear in n
            if (p.share_options) eo.shared_opts = tw.opts_storage;
            if (p.share_streams && eo.stream == STR_SIM && po.stream_fail_after < 0)
            {
                if (!tw.shared) tw.shared.reset(new SharedSimStream());
                eo.shared_os = &tw.shared->os;
            }
            tw.ops.push_back(eo);
            tw.entries.push_back(find_fleet(po.parser));
            tw.outs.emplace_back();
            rr.tasks[size_t(t)].push_back(std::move(orr));
        }
    }
    int64_t tsan0 = simrt::tsan_reports();
    simrt::set_nest_callback(&nested_body, &w);
    simrt::run_tasks(&task_body, &w);
    simrt::set_nest_callback(nullptr, nullptr);
    rr.tsan_reports = simrt::tsan_reports() - tsan0;
    for (int t = 0; t < nt; ++t)
    {
        std::vector<simrt::OpRec>& recs = simrt::task_ops(t);
        for (size_t i = 0; i < rr.tasks[size_t(t)].size(); ++i)
        {
            rr.tasks[size_t(t)][i].out = w.tasks[size_t(t)].outs[i];
            rr.tasks[size_t(t)][i].rec = recs[i];
        }
        if (!rr.tasks[size_t(t)].empty())
        {
            // what is still alive when the task has ended belongs to its last TOP-LEVEL call
            size_t last = rr.tasks[size_t(t)].size() - 1;
            while (last > 0 && rr.tasks[size_t(t)][last].rec.ran_nested) --last;
            rr.tasks[size_t(t)][last].rec.live_after = simrt::task_live(t);
        }
    }
    rr.hash = simrt::run_hash();
    // outcomes are part of the history as well
    for (auto& tv : rr.tasks)
        for (auto& o : tv)
        {
            uint64_t h = rr.hash;
            h ^= o.out.digest + 0x9e3779b97f4a7c15ull + (h << 6) + (h >> 2);
            h ^= uint64_t(o.out.has_value) + (uint64_t(o.out.exc) << 8) + 0x9e3779b97f4a7c15ull + (h << 6) + (h >> 2);
            h = fnv(o.rec.wrote.data(), o.rec.wrote.size(), h);
            h = fnv(o.out.oss_text.data(), o.out.oss_text.size(), h);
            rr.hash = h;
        }
    rr.events = simrt::seq_now();
    rr.switches = simrt::switches_done();
    rr.overlap = simrt::overlap_switches();
    rr.same_parser = simrt::same_parser_overlap();
    rr.ilv_sig = simrt::interleaving_sig();
    if (f.record_events) rr.log = simrt::events();
    return rr;
}

ref::RefResult ref_for(const OpResult& r, RefKind kind, bool legacy_pop_first)
{
    ref::RunOptions o;
    o.skip_ws = r.op.skip_ws; o.skip_nl = r.op.skip_nl;
    o.legacy_pop_first = legacy_pop_first;
    o.script = &r.rend.script;
    o.lex_fail_call = r.op.lex_fail_call;
    const ref::Model* m = (kind == REF_REAL_TABLE && r.rmodel) ? r.rmodel : r.model;
    return ref::run(*m, r.rend.bytes.data(), int64_t(r.rend.bytes.size()), o);
}

uint64_t plan_signature(const Plan& p)
{
    std::string s = js::dump(to_json(p));
    // seed/index are not part of the signature: two indices producing the same plan count once
    size_t k = s.find("\"property\"");
    if (k != std::string::npos) s = s.substr(k);
    return fnv(s.data(), s.size());
}

}  // namespace sim
