// Operation descriptions and outcomes exchanged between the worker (plan execution, oracles)
// and the fleet TUs (real ctpg code).
#pragma once
#include <cstdint>
#include <iosfwd>
#include <string>
#include <utility>
#include <vector>

namespace sim
{

enum Api { API_PARSE = 0, API_CONTEXT_PARSE = 1, API_DIAG = 2, API_MATCH = 3,
           API_CONTEXT_PARSE_TEMP = 4,
           API_MATCHER_DEBUG = 5 };       // regex::expr<P>::debug_parse(stream) / write_diag_str(stream): the library's own pattern parser, verbose, at run time   // context_parse with a TEMPORARY context object (Context deduced as a non-reference)
enum BufKind { BUF_SIM = 0, BUF_STRING = 1, BUF_VIEW = 2, BUF_CSTRING = 3 };
enum StreamKind { STR_NONE = 0, STR_SIM = 1, STR_OSS = 2 };

static const int CSTRING_SIZES[] = { 8, 16, 32, 64 };

// what the fleet TU needs to execute one call
struct ExecOp
{
    int api = API_PARSE;
    bool heap_instance = false;
    int buffer = BUF_SIM;
    int stream = STR_SIM;
    bool verbose = false, skip_ws = true, skip_nl = true;
    std::string input;          // final bytes (after all input faults)
    int op_index = 0;           // index inside the task (for simrt::begin_op)
    void* shared_opts = nullptr;         // storage of the task's long-lived ctpg::parse_options object (C15: options are the caller's object)
    std::ostream* shared_os = nullptr;   // STR_SIM: the task's long-lived stream object shared by its calls (C15 histories)
    bool hash_image = false;    // FNV of the parser object's bytes before/after the call (C15)
};

struct Outcome
{
    bool ran = false;
    bool has_value = false;
    uint64_t digest = 0;
    uint64_t sdigest = 0;       // structure-only digest (no source points)
    std::string text;           // tree text where the value type keeps one; otherwise empty
    int exc = 0;                // 0 none, 1 std::bad_alloc, 2 budget exceeded (run abandoned), 3 other std::exception, 4 unknown,
                                // 5 std::bad_variant_access (the value stack and the state stack disagree about what lies where),
                                // 6 std::runtime_error (the library's own: a fixed-capacity stack is full)
    std::string exc_what;
    std::string oss_text;       // STR_OSS: what the real std::ostringstream received
    bool stream_bad = false;    // stream state after the call
    uint64_t ctx_acc = 0; int ctx_touches = 0;
    uint64_t image_before = 0, image_after = 0;   // FNV of the parser object's bytes (heap instances)
};

typedef void (*ExecFn)(const ExecOp&, Outcome&);

// the parser's own LR table as read through the CTPG_VERIF accessors
struct RealTable
{
    int nstates = 0;
    std::vector<std::vector<std::pair<int, int>>> action;   // [state][term] -> (kind, arg)
    std::vector<std::vector<int>> go;                       // [state][nterm] -> state or -1
};
typedef void (*TableFn)(RealTable&, int term_count, int nterm_count);

// the parser's own generated lexer automaton
struct RealDfa
{
    int nstates = 0;
    std::vector<std::vector<int>> next;    // [state][byte] -> state or -1
    std::vector<int> recognized;           // [state] -> term or -1
};
typedef void (*DfaFn)(RealDfa&);

struct FleetEntry
{
    const char* key;        // e.g. "G1.node", "R1", "L1"
    const char* grammar;    // "G1"; for R*: the pattern id; "L1"
    const char* value;      // node | mnode | pnode | -
    ExecFn fn;
    const void* rodata_obj; size_t obj_size;
    void (*make_heap)();    // constructs the heap instance (call on a big-stack thread)
    bool has_cvector_value_stack;
    TableFn dump_table;
    DfaFn dump_dfa;
};

void register_fleet(const FleetEntry& e);
const std::vector<FleetEntry>& fleet();
const FleetEntry* find_fleet(const std::string& key);

inline uint64_t fnv(const void* p, size_t n, uint64_t h = 0xcbf29ce484222325ull)
{
    const unsigned char* c = static_cast<const unsigned char*>(p);
    for (size_t i = 0; i < n; ++i) { h ^= c[i]; h *= 0x100000001b3ull; }
    return h;
}

}  // namespace sim
