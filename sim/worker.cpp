// simworker: executes batches of seeded simulated runs, gates/minimises/records violations, replays.
//
//   simworker --batch PROP --seed S --from A --to B [--stride K --offset J] [--thorough] [--out DIR] [--hashes FILE]
//   simworker --replay FILE
//   simworker --show PROP --seed S --index I          (prints the generated plan)
//
// stdout protocol (one JSON document per line after the tag):
//   VIOL {...}      a gated, minimised violation (replay file already written)
//   NONDET {...}    a violation that did not reproduce identically (harness problem -> exit 2)
//   SUMMARY {...}   at the end of a batch
//   CRASH idx sig   from the fatal-signal handler (the driver restarts the worker after idx)
#include "execp.hpp"
#include "props_common.hpp"
#include "specs_data.hpp"

#include <algorithm>
#include <atomic>
#include <chrono>
#include <csignal>
#include <cstdio>
#include <cstdlib>
#include <cstring>
#include <fstream>
#include <map>
#include <sstream>
#include <unistd.h>
#include <sys/stat.h>
#include <pthread.h>

namespace sim
{
extern const Property kPropsA[]; extern const int kPropsACount;
extern const Property kPropsB[]; extern const int kPropsBCount;
extern const Property kPropsC[]; extern const int kPropsCCount;

const Property* find_property(const std::string& id)
{
    for (int i = 0; i < kPropsACount; ++i) if (id == kPropsA[i].id) return &kPropsA[i];
    for (int i = 0; i < kPropsBCount; ++i) if (id == kPropsB[i].id) return &kPropsB[i];
    for (int i = 0; i < kPropsCCount; ++i) if (id == kPropsC[i].id) return &kPropsC[i];
    return nullptr;
}
}

using namespace sim;

#ifndef SIM_FLAVOUR
#define SIM_FLAVOUR "plain"
#endif

static volatile long long g_cur_index = -1;
static char g_cur_prop[16] = "";

static void fatal_handler(int sig)
{
    char buf[96];
    int n = std::snprintf(buf, sizeof buf, "\nCRASH %lld %d\n", g_cur_index, sig);
    if (n > 0) { ssize_t w = write(1, buf, size_t(n)); (void)w; }
    _exit(sig == SIGALRM ? 78 : 77);
}

// Watchdog: a thread of its own, not alarm()/SIGALRM - under ThreadSanitizer an asynchronous signal is only delivered
// when some thread reaches a safe point, and a run that hangs because every task is blocked on a lock of the code under
// test (seeded S78) never does.
static std::atomic<long long> g_deadline_ms{ 0 };     // 0 = disarmed
static long long now_ms() { return std::chrono::duration_cast<std::chrono::milliseconds>(std::chrono::steady_clock::now().time_since_epoch()).count(); }
static void* watchdog_main(void*)
{
    for (;;)
    {
        usleep(200000);
        long long d = g_deadline_ms.load();
        if (d != 0 && now_ms() > d) fatal_handler(SIGALRM);
    }
    return nullptr;
}
static void watchdog_arm(int seconds)
{
    static bool started = false;
    if (!started) { started = true; pthread_t th; if (pthread_create(&th, nullptr, &watchdog_main, nullptr) == 0) pthread_detach(th); }
    g_deadline_ms.store(now_ms() + 1000ll * seconds);
}
static void watchdog_disarm() { g_deadline_ms.store(0); }

// sanitizer options: classify sanitizer deaths by exit code; leaks are not this tool's subject
extern "C" __attribute__((used)) const char* __asan_default_options() { return "exitcode=77:detect_leaks=0:abort_on_error=0:allocator_may_return_null=1:detect_stack_use_after_return=0"; }
extern "C" __attribute__((used)) const char* __ubsan_default_options() { return "halt_on_error=1:exitcode=77:print_stacktrace=1"; }
extern "C" __attribute__((used)) const char* __tsan_default_options() { return "halt_on_error=0:exitcode=0:report_signal_unsafe=0:history_size=4:suppress_equal_stacks=0:suppress_equal_addresses=0:symbolize=0"; }
// TSan report hook (tsan flavour only; the symbol is looked up weakly by the runtime)
extern "C" __attribute__((used)) void __tsan_on_report(void*) { simrt::tsan_report_hit(); }
// called by ASan right before it dies: tell the driver which run was fatal
extern "C" void __sanitizer_set_death_callback(void (*)(void)) __attribute__((weak));
static void death_cb()
{
    if (g_cur_index < 0) return;
    char buf[96];
    int n = std::snprintf(buf, sizeof buf, "\nCRASH %lld 0\n", g_cur_index);
    if (n > 0) { ssize_t w = write(1, buf, size_t(n)); (void)w; }
}

static std::string read_file(const std::string& path)
{
    std::ifstream f(path, std::ios::binary);
    std::stringstream ss; ss << f.rdbuf();
    return ss.str();
}

static void* heap_maker(void*)
{
    for (const FleetEntry& e : fleet()) if (e.make_heap) e.make_heap();
    return nullptr;
}

static void make_heap_instances()
{
    // the constructor's scratch tables are large: construct on a thread with a big stack (DESIGN 5)
    pthread_attr_t at; pthread_attr_init(&at);
    pthread_attr_setstacksize(&at, size_t(2) << 30);
    pthread_t th;
    if (pthread_create(&th, &at, heap_maker, nullptr) == 0) pthread_join(th, nullptr);
    pthread_attr_destroy(&at);
}

// ---------------------------------------------------------------------------------------------
static bool has_class(const std::vector<Violation>& vs, const std::string& prop, const std::string& cls)
{
    for (const Violation& v : vs) if (v.property == prop && v.cls == cls) return true;
    return false;
}

static std::vector<Violation> run_case_quiet(const Property* pr, const Plan& p, std::vector<uint64_t>* hashes = nullptr)
{
    CaseCtx cx; cx.st = nullptr; cx.replay = true;
    std::vector<Violation> vs = pr->run(p, cx);
    if (hashes) *hashes = cx.hashes;
    return vs;
}

// greedy + chunked minimisation of a plan while the same violation class persists (DESIGN 3.6)
static Plan shrink(const Property* pr, const Violation& v0, int budget, int& reruns)
{
    Plan best = v0.plan;
    auto still = [&](const Plan& cand) -> bool
    {
        if (reruns >= budget) return false;
        ++reruns;
        std::vector<Violation> vs = run_case_quiet(pr, cand);
        return has_class(vs, v0.property, v0.cls);
    };
    bool progress = true;
    while (progress && reruns < budget)
    {
        progress = false;
        // drop whole tasks
        for (size_t t = 0; best.tasks.size() > 1 && t < best.tasks.size(); )
        {
            Plan c = best; c.tasks.erase(c.tasks.begin() + long(t));
            if (still(c)) { best = c; progress = true; } else ++t;
        }
        // drop ops
        for (size_t t = 0; t < best.tasks.size(); ++t)
            for (size_t i = 0; best.tasks[t].ops.size() > 1 && i < best.tasks[t].ops.size(); )
            {
                Plan c = best; c.tasks[t].ops.erase(c.tasks[t].ops.begin() + long(i));
                if (still(c)) { best = c; progress = true; } else ++i;
            }
        // truncate / zero the schedule
        if (!best.schedule.empty())
        {
            Plan c = best; c.schedule.clear();
            if (still(c)) { best = c; progress = true; }
            else
            {
                for (size_t len = best.schedule.size() / 2; len >= 1 && reruns < budget; len /= 2)
                {
                    Plan d = best; d.schedule.resize(d.schedule.size() - std::min(len, d.schedule.size()));
                    if (d.schedule.size() < best.schedule.size() && still(d)) { best = d; progress = true; }
                    if (len == 1) break;
                }
                for (size_t i = 0; i < best.schedule.size() && reruns < budget; ++i)
                    if (best.schedule[i] != 0)
                    {
                        Plan d = best; d.schedule[i] = 0;
                        if (still(d)) { best = d; progress = true; }
                    }
            }
        }
        for (size_t t = 0; t < best.tasks.size(); ++t)
            for (size_t i = 0; i < best.tasks[t].ops.size(); ++i)
            {
                // drop faults
                for (size_t f = 0; f < best.tasks[t].ops[i].faults.size(); )
                {
                    Plan c = best; auto& fs = c.tasks[t].ops[i].faults; fs.erase(fs.begin() + long(f));
                    if (still(c)) { best = c; progress = true; } else ++f;
                }
                // drop token ranges (chunks first)
                {
                    size_t n = best.tasks[t].ops[i].toks.size();
                    for (size_t chunk = n / 2; chunk >= 1 && reruns < budget; chunk /= 2)
                    {
                        for (size_t s = 0; s < best.tasks[t].ops[i].toks.size(); )
                        {
                            Plan c = best; auto& tk = c.tasks[t].ops[i].toks;
                            size_t e = std::min(s + chunk, tk.size());
                            tk.erase(tk.begin() + long(s), tk.begin() + long(e));
                            if (still(c)) { best = c; progress = true; } else s += chunk;
                        }
                        if (chunk == 1) break;
                    }
                }
                // raw bytes: drop ranges
                if (best.tasks[t].ops[i].use_raw)
                {
                    size_t n = best.tasks[t].ops[i].raw.size();
                    for (size_t chunk = n / 2; chunk >= 1 && reruns < budget; chunk /= 2)
                    {
                        for (size_t s = 0; s < best.tasks[t].ops[i].raw.size(); )
                        {
                            Plan c = best; std::string& rw = c.tasks[t].ops[i].raw;
                            rw.erase(s, chunk);
                            if (still(c)) { best = c; progress = true; } else s += chunk;
                        }
                        if (chunk == 1) break;
                    }
                }
                // simplify whitespace and options
                {
                    Plan c = best; bool ch = false;
                    for (PTok& tk : c.tasks[t].ops[i].toks) if (tk.ws.size() > 1 || (tk.ws.size() == 1 && tk.ws != " ")) { tk.ws = " "; ch = true; }
                    if (!c.tasks[t].ops[i].tail.empty()) { c.tasks[t].ops[i].tail.clear(); ch = true; }
                    if (ch && still(c)) { best = c; progress = true; }
                }
                if (best.tasks[t].ops[i].verbose) { Plan c = best; c.tasks[t].ops[i].verbose = false; if (still(c)) { best = c; progress = true; } }
                if (best.tasks[t].ops[i].heap) { Plan c = best; c.tasks[t].ops[i].heap = false; if (still(c)) { best = c; progress = true; } }
                if (best.tasks[t].ops[i].buffer != BUF_SIM) { Plan c = best; c.tasks[t].ops[i].buffer = BUF_SIM; if (still(c)) { best = c; progress = true; } }
                if (!best.tasks[t].ops[i].skip_nl) { Plan c = best; c.tasks[t].ops[i].skip_nl = true; if (still(c)) { best = c; progress = true; } }
                if (!best.tasks[t].ops[i].skip_ws) { Plan c = best; c.tasks[t].ops[i].skip_ws = true; if (still(c)) { best = c; progress = true; } }
            }
    }
    return best;
}

static std::string g_out_dir = "out";

static std::string write_replay(const Violation& v, const Plan& minimal, int reruns, uint64_t hash)
{
    mkdir(g_out_dir.c_str(), 0777);
    char name[256];
    std::snprintf(name, sizeof name, "%s/replay_%s_%s_%llu_%lld.json", g_out_dir.c_str(), v.property.c_str(), v.cls.c_str(),
                  (unsigned long long)v.plan.seed, (long long)v.plan.index);
    js::Value doc = js::Value::obj();
    doc.set("property", v.property);
    doc.set("class", v.cls);
    doc.set("detail", v.detail);
    doc.set("seed", js::Value(int64_t(v.plan.seed)));
    doc.set("index", js::Value(v.plan.index));
    doc.set("flavour", SIM_FLAVOUR);
    if (const char* rg = std::getenv("VERIF_RANDOM_GRAMMARS")) if (*rg) doc.set("random_grammars", std::string(rg));
    doc.set("shrink_reruns", reruns);
    doc.set("history_hash", js::Value(int64_t(hash & 0x7fffffffffffffffull)));
    doc.set("plan", to_json(minimal));
    doc.set("original_plan", to_json(v.plan));
    std::ofstream f(name);
    f << js::dump(doc) << "\n";
    return name;
}

static uint64_t combine(const std::vector<uint64_t>& hs)
{
    uint64_t h = 0x5151;
    for (uint64_t x : hs) { h ^= x + 0x9e3779b97f4a7c15ull + (h << 6) + (h >> 2); }
    return h;
}

// returns 0 ok, 1 violation reproduced, 2 nondeterministic
static int replay_file(const std::string& path)
{
    js::Value doc = js::parse(read_file(path));
    std::string prop = doc.str("property"), cls = doc.str("class");
    const Property* pr = find_property(prop);
    if (!pr) { std::printf("unknown property %s\n", prop.c_str()); return 2; }
    Plan p = plan_from_json(doc.at("plan"));
    std::vector<uint64_t> hs;
    std::vector<Violation> vs = run_case_quiet(pr, p, &hs);
    uint64_t h = combine(hs) & 0x7fffffffffffffffull;
    bool same_class = has_class(vs, prop, cls);
    for (const Violation& v : vs)
        std::printf("REPLAY property=%s class=%s detail=%s\n", v.property.c_str(), v.cls.c_str(), v.detail.c_str());
    int64_t want = doc.num("history_hash", -1);
    if (same_class && (want < 0 || uint64_t(want) == h))
    {
        std::printf("VIOLATION property=%s replay=%s\n", prop.c_str(), path.c_str());
        return 1;
    }
    if (same_class) { std::printf("REPLAY-HASH-MISMATCH want=%lld got=%llu\n", (long long)want, (unsigned long long)h); return 2; }
    std::printf("REPLAY-CLEAN property=%s class=%s did not reproduce\n", prop.c_str(), cls.c_str());
    return 0;
}

int main(int argc, char** argv)
{
    std::string mode, prop, replay, hashes_path;
    uint64_t seed = 1;
    long long from = 0, to = 0, stride = 1, offset = 0, index = 0;
    bool thorough = false;
    double max_seconds = 0;
    for (int i = 1; i < argc; ++i)
    {
        std::string a = argv[i];
        auto next = [&]() -> std::string { return i + 1 < argc ? argv[++i] : ""; };
        if (a == "--batch") { mode = "batch"; prop = next(); }
        else if (a == "--replay") { mode = "replay"; replay = next(); }
        else if (a == "--debug") { mode = "debug"; replay = next(); }
        else if (a == "--show") { mode = "show"; prop = next(); }
        else if (a == "--seed") seed = std::strtoull(next().c_str(), nullptr, 10);
        else if (a == "--from") from = std::atoll(next().c_str());
        else if (a == "--to") to = std::atoll(next().c_str());
        else if (a == "--stride") stride = std::atoll(next().c_str());
        else if (a == "--offset") offset = std::atoll(next().c_str());
        else if (a == "--index") index = std::atoll(next().c_str());
        else if (a == "--thorough") thorough = true;
        else if (a == "--out") g_out_dir = next();
        else if (a == "--hashes") hashes_path = next();
        else if (a == "--max-seconds") max_seconds = std::atof(next().c_str());
        else if (a == "--list") mode = "list";
    }
    setvbuf(stdout, nullptr, _IOLBF, 0);
    std::signal(SIGSEGV, fatal_handler); std::signal(SIGBUS, fatal_handler); std::signal(SIGFPE, fatal_handler);
    std::signal(SIGILL, fatal_handler); std::signal(SIGABRT, fatal_handler); std::signal(SIGALRM, fatal_handler);
    if (__sanitizer_set_death_callback) __sanitizer_set_death_callback(death_cb);

    if (mode == "list")
    {
        for (const FleetEntry& e : fleet()) std::printf("%s %s %s size=%zu\n", e.key, e.grammar, e.value, e.obj_size);
        for (const ref::GrammarSpec& g : ref::all_specs())
        {
            const ref::Model* m = model_for(g.id);
            std::printf("MODEL %s states=%d rr_conflict=%d unresolved_sr=%d\n", g.id.c_str(), m->t.nstates, int(m->t.rr_conflict), m->t.unresolved_sr);
        }
        // is the table the library constructed the canonical LR(1) table (up to state numbering)?
        for (const FleetEntry& e : fleet())
        {
            if (std::string(e.value) != "node") continue;
            const ref::Model* c = model_for(e.grammar);
            const ref::Model* r = real_model_for(e.key);
            if (!c || !r) continue;
            std::vector<int> map(size_t(c->t.nstates), -1);
            std::vector<int> todo{ 0 };
            map[0] = 0;
            std::string diff;
            int paired = 0;
            while (!todo.empty() && diff.empty())
            {
                int cs = todo.back(); todo.pop_back();
                int rs = map[size_t(cs)];
                ++paired;
                auto pair = [&](int ct, int rt, const std::string& what)
                {
                    if (map[size_t(ct)] < 0) { map[size_t(ct)] = rt; todo.push_back(ct); }
                    else if (map[size_t(ct)] != rt) diff = "state " + std::to_string(cs) + " " + what + ": targets do not correspond";
                };
                for (size_t t = 0; t < c->t.action[size_t(cs)].size() && diff.empty(); ++t)
                {
                    const ref::Action& ca = c->t.action[size_t(cs)][t];
                    const ref::Action& ra = r->t.action[size_t(rs)][t];
                    if (ca.k != ra.k || (ca.k == ref::Action::REDUCE && ca.arg != ra.arg))
                        diff = "canonical state " + std::to_string(cs) + " / own state " + std::to_string(rs) + " term " + std::to_string(t) + ": canonical kind " + std::to_string(int(ca.k)) + " arg " + std::to_string(ca.arg) + ", own kind " + std::to_string(int(ra.k)) + " arg " + std::to_string(ra.arg);
                    else if (ca.k == ref::Action::SHIFT) pair(ca.arg, ra.arg, "shift on term " + std::to_string(t));
                }
                for (size_t n = 0; n < c->t.go[size_t(cs)].size() && diff.empty(); ++n)
                {
                    int cg = c->t.go[size_t(cs)][n], rg = r->t.go[size_t(rs)][n];
                    if ((cg < 0) != (rg < 0)) diff = "canonical state " + std::to_string(cs) + " goto on nterm " + std::to_string(n) + " differs";
                    else if (cg >= 0) pair(cg, rg, "goto on nterm " + std::to_string(n));
                }
            }
            std::printf("TABLE %s canonical_states=%d own_states=%d own_table_is_canonical=%d %s\n", e.grammar, c->t.nstates, r->t.nstates, int(diff.empty() && paired == r->t.nstates), diff.empty() && paired != c->t.nstates ? "(the canonical construction also lists states behind a shift that lost its conflict; they are unreachable)" : diff.c_str());
        }
        return 0;
    }

    // (VERIF_NO_HEAP: the run-time construction needs a stack frame of hundreds of megabytes, which memcheck cannot follow)
    if (!std::getenv("VERIF_NO_HEAP")) make_heap_instances();

    if (mode == "debug")
    {
        // prints, for every op of a replay file's plan, the real verbose trace and the reference's action list
        js::Value doc = js::parse(read_file(replay));
        Plan p = plan_from_json(doc.find("plan") ? doc.at("plan") : doc);
        for (auto& t : p.tasks) for (auto& o : t.ops) { o.verbose = true; o.stream = STR_OSS; }
        ExecFlags ef; ef.record_events = true;
        RunResult rr = exec_plan(p, ef);
        for (auto& tv : rr.tasks)
            for (auto& o : tv)
            {
                std::printf("=== %s input='%s' has_value=%d exc=%d %s\n%s\n", o.op.parser.c_str(), printable(o.rend.bytes, 400).c_str(), int(o.out.has_value), o.out.exc, o.out.exc_what.c_str(), o.out.text.c_str());
                std::printf("--- real trace\n%s", o.out.oss_text.c_str());
                if (o.model)
                {
                    ref::RefResult r = ref_for(o);
                    std::printf("--- reference accepted=%d %s\n", int(r.accepted), r.text.c_str());
                    for (const ref::Act& a : r.acts) std::printf("[%d:%d] %s %d %s\n", a.line, a.col, ref::act_name(a.k), a.a, printable(a.s).c_str());
                }
            }
        for (const simrt::Event& e : rr.log)
            if (e.kind != simrt::K_RD && e.kind != simrt::K_ADV) std::printf("ev %u t%d %s a=%lld b=%lld\n", e.seq, e.task, simrt::kind_name(e.kind), (long long)e.a, (long long)e.b);
        return 0;
    }
    if (mode == "replay")
    {
        watchdog_arm(thorough ? 300 : 120);     // a replayed livelock must end too (exit 78 = reproduced hang)
        int rc = replay_file(replay);
        simrt::shutdown_pool();
        return rc;
    }

    const Property* pr = find_property(prop);
    if (!pr) { std::fprintf(stderr, "unknown property '%s'\n", prop.c_str()); return 3; }
    std::snprintf(g_cur_prop, sizeof g_cur_prop, "%s", prop.c_str());

    if (mode == "show")
    {
        Plan p = pr->gen(seed, index, thorough);
        std::printf("%s\n", js::dump(to_json(p)).c_str());
        return 0;
    }

    Stats st;
    int violations = 0, nondet = 0;
    std::map<std::string, int> class_count;
    int64_t uncounted_extra = 0;
    int64_t known_reported = 0;      // occurrences of recorded known findings: reported, but they do not settle the verdict
    std::ofstream hf;
    if (!hashes_path.empty()) hf.open(hashes_path);
    auto t0 = std::chrono::steady_clock::now();
    long long done_upto = from;
    // C15: each worker process starts with a cold-start case of its own (negative index, see props_c.cpp)
    const bool cold = (prop == "C15" && from == 0);
    for (long long i = cold ? from - 1 : from; i < to; ++i)
    {
        if (i >= 0 && (i % stride) != offset) continue;
        if (i < 0) i = -1 - offset;
        if (max_seconds > 0 && (i & 15) == 0)
        {
            double el = std::chrono::duration<double>(std::chrono::steady_clock::now() - t0).count();
            if (el > max_seconds) break;
        }
        g_cur_index = i;
        watchdog_arm(thorough ? 300 : 120);
        Plan p = pr->gen(seed, i, thorough);
        CaseCtx cx; cx.st = &st; cx.thorough = thorough;
        std::vector<Violation> vs = pr->run(p, cx);
        ++st.cases;
        if (hf.is_open()) hf << i << " " << combine(cx.hashes) << "\n";
        if (i >= 0) done_upto = i + 1;
        // one report per violation class per case; after a few fully processed reports of a class the rest is only counted
        std::vector<std::string> seen;
        for (const Violation& v : vs)
        {
            std::string key = v.property + "/" + v.cls;
            if (std::find(seen.begin(), seen.end(), key) != seen.end()) continue;
            seen.push_back(key);
            const bool known = v.cls.rfind("known_", 0) == 0;
            if (++class_count[key] > 3) { if (!known) ++uncounted_extra; st.add((known ? "known_finding_occurrences." : "violations_not_minimised.") + v.cls); continue; }
            if (known) ++known_reported;
            js::Value j = js::Value::obj();
            j.set("property", v.property); j.set("class", v.cls); j.set("detail", v.detail);
            j.set("seed", js::Value(int64_t(seed))); j.set("index", js::Value(int64_t(i)));
            if (v.plan.mode == "cold_start")
            {
                // first-call effects cannot be repeated inside this process (it is warm now): the plan goes out unminimised
                // and the fresh-process replay of the driver is the gate
                std::string path = write_replay(v, v.plan, 0, combine(cx.hashes));
                j.set("replay", path); j.set("shrink_reruns", 0); j.set("plan", to_json(v.plan));
                ++violations;
                std::printf("VIOL %s\n", js::dump(j).c_str());
                continue;
            }
            // gate 1: the same plan, executed again in this process, gives the same history and the same class
            std::vector<uint64_t> h1, h2;
            std::vector<Violation> again1 = run_case_quiet(pr, v.plan, &h1);
            std::vector<Violation> again2 = run_case_quiet(pr, v.plan, &h2);
            bool ok = has_class(again1, v.property, v.cls) && has_class(again2, v.property, v.cls) && combine(h1) == combine(h2);
            if (!ok)
            {
                ++nondet;
                j.set("plan", to_json(v.plan));
                std::printf("NONDET %s\n", js::dump(j).c_str());
                continue;
            }
            int reruns = 0;
            Plan minimal = shrink(pr, v, 300, reruns);
            std::vector<uint64_t> hm;
            std::vector<Violation> vm = run_case_quiet(pr, minimal, &hm);
            std::string detail = v.detail;
            for (const Violation& x : vm) if (x.property == v.property && x.cls == v.cls) { detail = x.detail; break; }
            Violation vmin = v; vmin.detail = detail;
            std::string path = write_replay(vmin, minimal, reruns, combine(hm));
            j.set("detail", detail);
            j.set("replay", path); j.set("shrink_reruns", reruns);
            j.set("plan", to_json(minimal));
            ++violations;
            std::printf("VIOL %s\n", js::dump(j).c_str());
        }
        watchdog_disarm();
        if (i < 0) i = from - 1;
        if (violations - known_reported + uncounted_extra >= 60) break;     // the verdict is settled; do not grind through a broken tree
    }
    g_cur_index = -1;
    double wall = std::chrono::duration<double>(std::chrono::steady_clock::now() - t0).count();
    js::Value s = js::Value::obj();
    s.set("property", prop); s.set("seed", js::Value(int64_t(seed)));
    s.set("from", js::Value(int64_t(from))); s.set("to", js::Value(int64_t(to))); s.set("done_upto", js::Value(int64_t(done_upto)));
    s.set("cases", js::Value(st.cases)); s.set("runs", js::Value(st.runs));
    s.set("violations", violations); s.set("nondeterministic", nondet); s.set("further_violations_counted_only", js::Value(uncounted_extra));
    s.set("seq_total", js::Value(st.seq_total)); s.set("steps_total", js::Value(st.steps_total));
    s.set("wall_s", js::Value(wall));
    s.set("tsan_reports_total", js::Value(simrt::tsan_reports()));
    js::Value cs = js::Value::obj();
    for (const auto& kv : st.c) cs.set(kv.first, js::Value(kv.second));
    s.set("counters", cs);
    js::Value ds = js::Value::arr();
    for (uint64_t d : st.distinct) ds.push(js::Value(int64_t(d & 0x7fffffffffffffffull)));
    s.set("distinct", ds);
    js::Value is = js::Value::arr();
    for (uint64_t d : st.interleavings) is.push(js::Value(int64_t(d & 0x7fffffffffffffffull)));
    s.set("interleavings", is);
    js::Value sm = js::Value::arr();
    for (const std::string& x : st.samples) sm.push(js::parse(x));
    s.set("samples", sm);
    std::printf("SUMMARY %s\n", js::dump(s).c_str());
    simrt::shutdown_pool();
    return nondet ? 2 : (violations ? 1 : 0);
}
