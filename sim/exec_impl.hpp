// Executes one ExecOp against a real ctpg parser / regex matcher (included by the fleet TUs only).
#pragma once
#include "op.hpp"
#include "seams.hpp"

#include <cstring>
#include <memory>
#include <new>
#include <sstream>
#include <stdexcept>

namespace sim
{

template<typename V>
inline void take_value(std::optional<V>& r, Outcome& out)
{
    out.has_value = r.has_value();
    if (r.has_value())
    {
        if constexpr (std::is_same_v<V, ctpg::utils::slice>)
        {
            out.digest = (uint64_t(r->start) << 32) | r->n;
            out.sdigest = out.digest;
        }
        else
        {
            out.digest = r->get_digest();
            out.sdigest = r->get_sdigest();
            if constexpr (V::keeps_text) out.text = r->text;
        }
    }
}

// one call, with every party chosen by the op
template<typename P, typename Buf, typename Stream>
inline void call_api(const P& p, const ExecOp& op, const Buf& buf, Stream& st, Outcome& out)
{
    // the options are the caller's object: either a local of this call, or (plan.share_options) ONE long-lived object of
    // the task that is set anew before every call - a call made from inside a functor of a running call sets it too, and
    // the running call must keep working with what it was given when it started (S102)
    static_assert(sizeof(ctpg::parse_options) <= 64);
    ctpg::parse_options local;
    ctpg::parse_options& o = op.shared_opts ? *new (op.shared_opts) ctpg::parse_options : local;
    o.set_verbose(op.verbose).set_skip_whitespace(op.skip_ws).set_skip_newline(op.skip_nl);
    // with default options the shorter public overloads are used (they forward to the same driver)
    const bool defaults = !op.shared_opts && !op.verbose && op.skip_ws && op.skip_nl;
    constexpr bool no_stream = std::is_same_v<Stream, ctpg::utils::no_stream>;
    if (op.api == API_CONTEXT_PARSE_TEMP)
    {
        simrt::set_ctx(nullptr);     // a temporary: confinement is judged by counting, not by address
        std::optional<std::decay_t<decltype(*p.context_parse(SimCtx{}, o, buf, st))>> r;
        if (defaults && no_stream) r = p.context_parse(SimCtx{}, buf);
        else if (defaults) r = p.context_parse(SimCtx{}, buf, st);
        else r = p.context_parse(SimCtx{}, o, buf, st);
        simrt::end_op();
        take_value(r, out);
    }
    else if (op.api == API_CONTEXT_PARSE)
    {
        SimCtx ctx;
        simrt::set_ctx(&ctx);
        {
            std::optional<std::decay_t<decltype(*p.context_parse(ctx, o, buf, st))>> r;
            if (defaults && no_stream) r = p.context_parse(ctx, buf);
            else if (defaults) r = p.context_parse(ctx, buf, st);
            else r = p.context_parse(ctx, o, buf, st);
            simrt::end_op();
            take_value(r, out);
        }
        out.ctx_acc = ctx.acc; out.ctx_touches = ctx.touches;
    }
    else
    {
        std::optional<std::decay_t<decltype(*p.parse(o, buf, st))>> r;
        if (defaults && no_stream) r = p.parse(buf);
        else if (defaults) r = p.parse(buf, st);
        else r = p.parse(o, buf, st);
        simrt::end_op();
        take_value(r, out);
    }
}

template<typename P, typename Buf>
inline void with_stream(const P& p, const ExecOp& op, const Buf& buf, Outcome& out)
{
    if (op.stream == STR_NONE)
    {
        ctpg::utils::no_stream ns;
        call_api(p, op, buf, ns, out);
    }
    else if (op.stream == STR_SIM && op.shared_os)
    {
        call_api(p, op, buf, *op.shared_os, out);
        out.stream_bad = !op.shared_os->good();
    }
    else if (op.stream == STR_SIM)
    {
        SimStreamBuf sb;
        std::ostream os(&sb);
        call_api(p, op, buf, os, out);
        out.stream_bad = !os.good();
    }
    else
    {
        std::ostringstream os;
        // the text is collected also when the call leaves by exception
        struct Collect { std::ostringstream& os; Outcome& out; ~Collect() { out.stream_bad = !os.good(); out.oss_text = os.str(); } } collect{ os, out };
        call_api(p, op, buf, static_cast<std::ostream&>(os), out);
    }
}

template<size_t N, typename P>
inline void with_cstring(const P& p, const ExecOp& op, Outcome& out)
{
    char arr[N];
    std::memset(arr, 0, N);
    std::memcpy(arr, op.input.data(), op.input.size() < N - 1 ? op.input.size() : N - 1);
    // half of the arrays are completely filled (no terminating NUL): cstring_buffer<N> takes a char[N] and treats the
    // first N-1 elements as the text whatever the last one is, so nothing may depend on finding a NUL (S97)
    if ((op.input.size() + size_t(op.op_index) + (op.input.empty() ? 0u : size_t((unsigned char)op.input[0]))) % 2 == 1) arr[N - 1] = '#';
    ctpg::buffers::cstring_buffer<N> buf(arr);
    simrt::set_buffer(buf.begin().ptr, int64_t(N - 1));
    with_stream(p, op, buf, out);
}

template<typename P>
inline void with_buffer(const P& p, const ExecOp& op, Outcome& out)
{
    size_t n = op.input.size();
    if (op.buffer == BUF_CSTRING)
    {
        // input length + 1 must be one of CSTRING_SIZES (the plan generator pads)
        switch (n + 1)
        {
        case 8: with_cstring<8>(p, op, out); return;
        case 16: with_cstring<16>(p, op, out); return;
        case 32: with_cstring<32>(p, op, out); return;
        case 64: with_cstring<64>(p, op, out); return;
        default: break;   // falls back to the string buffer
        }
    }
    if (op.buffer == BUF_SIM)
    {
        // exact-size heap block: raw accesses through a returned view past the end hit a redzone
        std::unique_ptr<char[]> blk(new char[n ? n : 1]);
        std::memcpy(blk.get(), op.input.data(), n);
        simrt::set_buffer(blk.get(), int64_t(n));
        SimBuffer buf(blk.get(), int64_t(n));
        with_stream(p, op, buf, out);
    }
    else if (op.buffer == BUF_VIEW)
    {
        // asan flavour: exact-size block (a read past end() hits the redzone). Other flavours: the view is a SUB-RANGE of a
        // larger text -- what follows it is blank space and more "source"; a library that reads past end() changes its answer
#ifdef SIM_ASAN
        static const char trailer[] = "";
#else
        static const char trailer[] = " \t\n) 7 ; x } ] \"z\" 1 \n";
#endif
        size_t tn = sizeof(trailer) - 1;
        std::unique_ptr<char[]> blk(new char[n + tn + 1]);
        std::memcpy(blk.get(), op.input.data(), n);
        std::memcpy(blk.get() + n, trailer, tn);
        simrt::set_buffer(blk.get(), int64_t(n));
        ctpg::buffers::string_view_buffer buf(std::string_view(blk.get(), n));
        with_stream(p, op, buf, out);
    }
    else
    {
        // a caller may hand over a string_buffer that was copied or moved around before: build it, copy or move it,
        // destroy the source (which way is decided by the input, so the run stays a function of the plan)
        auto src = std::make_unique<ctpg::buffers::string_buffer>(std::string(op.input));
        unsigned how = unsigned(n % 3);
        if (how == 0)
        {
            simrt::set_buffer(n ? &*src->begin() : nullptr, int64_t(n));
            with_stream(p, op, *src, out);
        }
        else
        {
            std::unique_ptr<ctpg::buffers::string_buffer> buf(how == 1 ? new ctpg::buffers::string_buffer(*src) : new ctpg::buffers::string_buffer(std::move(*src)));
            src.reset();
            simrt::set_buffer(n ? &*buf->begin() : nullptr, int64_t(n));
            with_stream(p, op, *buf, out);
        }
    }
}

template<typename P>
struct HeapBox
{
    static P*& ptr() { static P* p = nullptr; return p; }
};

// entry point registered by each fleet TU for a parser
template<typename Holder>
void exec_parser(const ExecOp& op, Outcome& out)
{
    using P = typename Holder::parser_type;
    const P* p = &Holder::rodata();
    if (op.heap_instance && HeapBox<P>::ptr()) p = HeapBox<P>::ptr();
    simrt::begin_op(op.op_index);
    simrt::set_current_parser(p);
    simrt::set_expected_owner(p == &Holder::rodata() ? 0 : 1);
    out.ran = true;
    bool heap = op.hash_image;
    if (heap) out.image_before = fnv(p, sizeof(P));
    try
    {
        if (op.api == API_DIAG)
        {
            if (op.stream == STR_OSS)
            {
                std::ostringstream os;
                p->write_diag_str(os);
                simrt::end_op();
                out.oss_text = os.str();
                out.digest = fnv(out.oss_text.data(), out.oss_text.size());
            }
            else if (op.shared_os)
            {
                p->write_diag_str(*op.shared_os);
                simrt::end_op();
                out.stream_bad = !op.shared_os->good();
            }
            else
            {
                SimStreamBuf sb;
                std::ostream os(&sb);
                p->write_diag_str(os);
                simrt::end_op();
                out.stream_bad = !os.good();
            }
            out.has_value = true;
        }
        else
            with_buffer(*p, op, out);
    }
    catch (const std::bad_alloc&) { simrt::end_op(); out.exc = 1; }
    catch (const std::bad_variant_access& e) { simrt::end_op(); out.exc = 5; out.exc_what = e.what(); }
    catch (const std::runtime_error& e) { simrt::end_op(); out.exc = 6; out.exc_what = e.what(); }
    catch (const simrt::BudgetExceeded&) { simrt::end_op(); out.exc = 2; }
    catch (const std::exception& e) { simrt::end_op(); out.exc = 3; out.exc_what = e.what(); }
    catch (...) { simrt::end_op(); out.exc = 4; }
    if (heap) out.image_after = fnv(p, sizeof(P));
    simrt::set_current_parser(nullptr);
}

// ---- standalone regex matcher ---------------------------------------------------------------
template<typename M, typename Buf>
inline void match_with_stream(const M& m, const ExecOp& op, const Buf& buf, Outcome& out)
{
    ctpg::match_options mo; mo.set_verbose(op.verbose);
    bool r;
    // the shorter public overloads when the options are the defaults
    if (op.stream == STR_NONE && !op.verbose) r = m.match(buf);
    else if (op.stream == STR_SIM && !op.verbose && !op.shared_os) { SimStreamBuf sb; std::ostream os(&sb); r = m.match(buf, os); out.stream_bad = !os.good(); }
    else if (op.stream == STR_NONE) { ctpg::utils::no_stream ns; r = m.match(mo, buf, ns); }
    else if (op.stream == STR_SIM && op.shared_os) { r = m.match(mo, buf, *op.shared_os); out.stream_bad = !op.shared_os->good(); }
    else if (op.stream == STR_SIM) { SimStreamBuf sb; std::ostream os(&sb); r = m.match(mo, buf, os); out.stream_bad = !os.good(); }
    else { std::ostringstream os; r = m.match(mo, buf, static_cast<std::ostream&>(os)); out.oss_text = os.str(); }
    simrt::end_op();
    out.has_value = r;
    out.digest = r ? 1 : 0;
}

template<size_t N, typename M>
inline void match_cstring(const M& m, const ExecOp& op, Outcome& out)
{
    char arr[N];
    std::memset(arr, 0, N);
    std::memcpy(arr, op.input.data(), op.input.size() < N - 1 ? op.input.size() : N - 1);
    // half of the arrays are completely filled (no terminating NUL): cstring_buffer<N> takes a char[N] and treats the
    // first N-1 elements as the text whatever the last one is, so nothing may depend on finding a NUL (S97)
    if ((op.input.size() + size_t(op.op_index) + (op.input.empty() ? 0u : size_t((unsigned char)op.input[0]))) % 2 == 1) arr[N - 1] = '#';
    ctpg::buffers::cstring_buffer<N> buf(arr);
    simrt::set_buffer(buf.begin().ptr, int64_t(N - 1));
    match_with_stream(m, op, buf, out);
}

template<typename Holder>
void exec_matcher(const ExecOp& op, Outcome& out)
{
    const auto& m = Holder::rodata();
    simrt::begin_op(op.op_index);
    simrt::set_current_parser(&m);
    out.ran = true;
    size_t n = op.input.size();
    try
    {
        bool done = false;
        if (op.api == API_MATCHER_DEBUG)
        {
            // the library's own pattern parser run verbosely over the matcher's pattern, then the automaton dump
            done = true;
            if (op.stream == STR_OSS)
            {
                std::ostringstream os;
                std::decay_t<decltype(m)>::debug_parse(os);
                m.write_diag_str(os);
                simrt::end_op();
                out.oss_text = os.str();
                out.digest = fnv(out.oss_text.data(), out.oss_text.size());
            }
            else
            {
                SimStreamBuf sb; std::ostream local(&sb);
                std::ostream& os = op.shared_os ? *op.shared_os : local;
                std::decay_t<decltype(m)>::debug_parse(os);
                m.write_diag_str(os);
                simrt::end_op();
                out.stream_bad = !os.good();
            }
            out.has_value = true;
        }
        else if (op.buffer == BUF_CSTRING)
        {
            done = true;
            switch (n + 1)
            {
            case 8: match_cstring<8>(m, op, out); break;
            case 16: match_cstring<16>(m, op, out); break;
            case 32: match_cstring<32>(m, op, out); break;
            case 64: match_cstring<64>(m, op, out); break;
            default: done = false; break;
            }
        }
        if (!done)
        {
            if (op.buffer == BUF_SIM)
            {
                std::unique_ptr<char[]> blk(new char[n ? n : 1]);
                std::memcpy(blk.get(), op.input.data(), n);
                simrt::set_buffer(blk.get(), int64_t(n));
                SimBuffer buf(blk.get(), int64_t(n));
                match_with_stream(m, op, buf, out);
            }
            else if (op.buffer == BUF_VIEW)
            {
                std::unique_ptr<char[]> blk(new char[n ? n : 1]);
                std::memcpy(blk.get(), op.input.data(), n);
                simrt::set_buffer(blk.get(), int64_t(n));
                ctpg::buffers::string_view_buffer buf(std::string_view(blk.get(), n));
                match_with_stream(m, op, buf, out);
            }
            else
            {
                ctpg::buffers::string_buffer buf{ std::string(op.input) };
                simrt::set_buffer(n ? &*buf.begin() : nullptr, int64_t(n));
                match_with_stream(m, op, buf, out);
            }
        }
    }
    catch (const std::bad_alloc&) { simrt::end_op(); out.exc = 1; }
    catch (const std::bad_variant_access& e) { simrt::end_op(); out.exc = 5; out.exc_what = e.what(); }
    catch (const std::runtime_error& e) { simrt::end_op(); out.exc = 6; out.exc_what = e.what(); }
    catch (const simrt::BudgetExceeded&) { simrt::end_op(); out.exc = 2; }
    catch (const std::exception& e) { simrt::end_op(); out.exc = 3; out.exc_what = e.what(); }
    catch (...) { simrt::end_op(); out.exc = 4; }
    simrt::set_current_parser(nullptr);
}

}  // namespace sim
