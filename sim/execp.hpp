// Plan execution: runs the tasks of a plan on the real code under the seeded scheduler.
#pragma once
#include "plan.hpp"
#include "rt.hpp"

#include <functional>
#include <map>
#include <set>
#include <string>
#include <vector>

namespace sim
{

struct OpResult
{
    PlanOp op;
    Rendered rend;
    Outcome out;
    simrt::OpRec rec;
    bool custom_lexer = false;
    const ref::Model* model = nullptr;    // canonical LR(1) reference
    const ref::Model* rmodel = nullptr;   // documented driver over the parser's own table
};

struct RunResult
{
    std::vector<std::vector<OpResult>> tasks;
    uint64_t hash = 0;
    int64_t events = 0, switches = 0, overlap = 0, same_parser = 0;
    uint64_t ilv_sig = 0;
    int64_t tsan_reports = 0;
    std::vector<simrt::Event> log;     // only when events were recorded
};

struct ExecFlags
{
    bool record_events = false;
    int64_t step_budget_mult = 16;     // budget = 64 + mult * reference steps
};

RunResult exec_plan(const Plan& p, const ExecFlags& f);

// reference run for one executed op (uses the bytes and the script the op really saw)
enum RefKind { REF_CANONICAL = 0, REF_REAL_TABLE = 1 };
ref::RefResult ref_for(const OpResult& r, RefKind kind = REF_REAL_TABLE, bool legacy_pop_first = false);

// ---------------------------------------------------------------------------------------------
struct Violation
{
    std::string property;
    std::string cls;       // violation class (shrinking keeps it fixed)
    std::string detail;
    Plan plan;             // the exact plan that reproduces it
};

struct Stats
{
    std::map<std::string, int64_t> c;           // counters and probes
    std::set<uint64_t> distinct;                // signatures of distinct non-trivial runs
    std::set<uint64_t> interleavings;
    std::vector<std::string> samples;           // a few plans (json)
    int64_t runs = 0, cases = 0, seq_total = 0, steps_total = 0;
    void add(const std::string& k, int64_t v = 1) { c[k] += v; }
};

struct CaseCtx
{
    Stats* st = nullptr;
    bool thorough = false;
    bool replay = false;
    std::vector<uint64_t> hashes;     // hash of every executed run of the case, in order
};

// one case = the base plan plus whatever derived runs the property needs
typedef std::vector<Violation> (*CaseFn)(const Plan& p, CaseCtx& cx);
typedef Plan (*GenFn)(uint64_t seed, int64_t index, bool thorough);

struct Property
{
    const char* id;
    GenFn gen;
    CaseFn run;
};
const Property* find_property(const std::string& id);

uint64_t plan_signature(const Plan& p);

}  // namespace sim
