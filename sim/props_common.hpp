// Helpers shared by the per-property generators and judges.
#pragma once
#include "execp.hpp"

#include <initializer_list>
#include <string>
#include <vector>

namespace sim
{

std::vector<std::string> keys_for(std::initializer_list<const char*> grammars, bool with_pnode = true, bool with_xnode = false);
std::vector<std::string> regex_keys();
std::vector<std::string> random_grammar_keys();

struct OpShape
{
    int budget = 20;          // sentence size hint (terms)
    bool ws_rich = false;
    int p_skip_ws_off = 10;   // percent
    int p_skip_nl_off = 15;
    int p_verbose = 0;
    std::vector<int> buffers = { BUF_SIM };
    std::vector<int> streams = { STR_SIM };
    bool allow_heap = false;
    int p_dense = 25;         // percent of sentences rendered with no optional whitespace at all
};

PlanOp make_sentence_op(Rng& rng, const std::string& key, const OpShape& sh);
void add_byte_faults(PlanOp& op, Rng& rng, int n, const ref::Model* m);
void add_token_faults(PlanOp& op, Rng& rng, int n, const ref::Model& m);
std::string byte_soup(Rng& rng, const ref::Model* m, int n);
// replaces the lexeme of one token by a very long one (>= 64 KiB) of the same term; false if the sentence has no stretchable term
bool stretch_one_lexeme(PlanOp& op, Rng& rng, const ref::Model& m, size_t target_len);

// deeply nested / long right-recursive sentence whose value stack crosses `target` entries (1024, 2048, ...) by a few either way
bool make_deep_op(PlanOp& op, Rng& rng, const std::string& key, int target);

Plan single_op_plan(const std::string& property, uint64_t seed, int64_t index, const std::string& mode, const PlanOp& op);

// a fixed-capacity stack reported full (exc 6) although the pinned formula N + EmptyRulesCount + 1 holds the deepest stack
// the documented driver reaches on this input
bool capacity_exception_unjustified(const OpResult& o, const ref::RefResult& r);

Violation make_violation(const std::string& prop, const std::string& cls, const std::string& detail, const Plan& p);
std::string printable(const std::string& s, size_t max = 200);

// account a finished run in the statistics (distinct signature, fault counters, logical time)
void account(CaseCtx& cx, const Plan& p, const RunResult& rr, bool nontrivial);

// verbose trace parsing (C16)
struct TraceLine
{
    enum K { RECOGNIZED, SHIFT, REDUCE, GOTO, SYNTAX_ERROR, UNEXPECTED_CHAR, ENTER_RECOVERY, RECOVERING_TO, COULD_NOT_RECOVER,
             LEAVE_RECOVERY, ENTER_CONSUME, LEAVE_CONSUME, CONSUME_TERM, SUCCESS, LEXER_NOISE, RR_CONFLICT, UNKNOWN } k = UNKNOWN;
    int line = 0, col = 0;
    int64_t n = 0;           // state / rule
    std::string s;           // term name / lexeme
    std::string raw;
};
bool parse_trace(const std::string& text, std::vector<TraceLine>& out, std::string& err);

}  // namespace sim
