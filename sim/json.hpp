// Minimal JSON value, parser and writer (enough for plans, replay files and worker summaries).
#pragma once
#include <cstdint>
#include <cstdio>
#include <map>
#include <stdexcept>
#include <string>
#include <vector>

namespace js
{

struct Value
{
    enum T { NUL, BOOL, NUM, STR, ARR, OBJ } t = NUL;
    bool b = false;
    double d = 0;
    int64_t i = 0;
    bool is_int = false;
    std::string s;
    std::vector<Value> a;
    std::vector<std::pair<std::string, Value>> o;   // insertion order kept: output is deterministic

    Value() {}
    Value(bool v) : t(BOOL), b(v) {}
    Value(int v) : t(NUM), d(double(v)), i(v), is_int(true) {}
    Value(int64_t v) : t(NUM), d(double(v)), i(v), is_int(true) {}
    Value(uint64_t v) : t(NUM), d(double(v)), i(int64_t(v)), is_int(true) {}
    Value(double v) : t(NUM), d(v), i(int64_t(v)), is_int(false) {}
    Value(const char* v) : t(STR), s(v) {}
    Value(const std::string& v) : t(STR), s(v) {}

    static Value arr() { Value v; v.t = ARR; return v; }
    static Value obj() { Value v; v.t = OBJ; return v; }

    Value& set(const std::string& k, Value v)
    {
        for (auto& kv : o) if (kv.first == k) { kv.second = std::move(v); return *this; }
        o.emplace_back(k, std::move(v));
        return *this;
    }
    Value& push(Value v) { a.push_back(std::move(v)); return *this; }
    const Value* find(const std::string& k) const
    {
        for (auto& kv : o) if (kv.first == k) return &kv.second;
        return nullptr;
    }
    const Value& at(const std::string& k) const
    {
        const Value* v = find(k);
        if (!v) throw std::runtime_error("json: missing key " + k);
        return *v;
    }
    int64_t num(const std::string& k, int64_t def = 0) const { const Value* v = find(k); return v && v->t == NUM ? v->i : def; }
    bool boolean(const std::string& k, bool def = false) const { const Value* v = find(k); return v && v->t == BOOL ? v->b : def; }
    std::string str(const std::string& k, const std::string& def = "") const { const Value* v = find(k); return v && v->t == STR ? v->s : def; }
};

inline void write_str(std::string& out, const std::string& s)
{
    out += '"';
    for (unsigned char c : s)
    {
        switch (c)
        {
        case '"': out += "\\\""; break;
        case '\\': out += "\\\\"; break;
        case '\n': out += "\\n"; break;
        case '\r': out += "\\r"; break;
        case '\t': out += "\\t"; break;
        default:
            if (c < 0x20 || c >= 0x7f) { char b[8]; std::snprintf(b, sizeof b, "\\u%04x", c); out += b; }
            else out += char(c);
        }
    }
    out += '"';
}

inline void write(std::string& out, const Value& v)
{
    switch (v.t)
    {
    case Value::NUL: out += "null"; break;
    case Value::BOOL: out += v.b ? "true" : "false"; break;
    case Value::NUM:
    {
        char b[40];
        if (v.is_int) std::snprintf(b, sizeof b, "%lld", (long long)v.i);
        else std::snprintf(b, sizeof b, "%.6g", v.d);
        out += b;
        break;
    }
    case Value::STR: write_str(out, v.s); break;
    case Value::ARR:
        out += '[';
        for (size_t i = 0; i < v.a.size(); ++i) { if (i) out += ','; write(out, v.a[i]); }
        out += ']';
        break;
    case Value::OBJ:
        out += '{';
        for (size_t i = 0; i < v.o.size(); ++i) { if (i) out += ','; write_str(out, v.o[i].first); out += ':'; write(out, v.o[i].second); }
        out += '}';
        break;
    }
}
inline std::string dump(const Value& v) { std::string s; write(s, v); return s; }

struct Parser
{
    const std::string& s; size_t i = 0;
    explicit Parser(const std::string& s) : s(s) {}
    void ws() { while (i < s.size() && (s[i] == ' ' || s[i] == '\n' || s[i] == '\r' || s[i] == '\t')) ++i; }
    [[noreturn]] void fail(const char* w) { throw std::runtime_error(std::string("json: ") + w + " at " + std::to_string(i)); }
    Value parse()
    {
        ws();
        if (i >= s.size()) fail("eof");
        char c = s[i];
        if (c == '{')
        {
            Value v = Value::obj(); ++i; ws();
            if (i < s.size() && s[i] == '}') { ++i; return v; }
            for (;;)
            {
                ws(); Value k = parse(); if (k.t != Value::STR) fail("key");
                ws(); if (i >= s.size() || s[i] != ':') fail("colon"); ++i;
                Value x = parse(); v.o.emplace_back(k.s, std::move(x));
                ws(); if (i < s.size() && s[i] == ',') { ++i; continue; }
                if (i < s.size() && s[i] == '}') { ++i; return v; }
                fail("object");
            }
        }
        if (c == '[')
        {
            Value v = Value::arr(); ++i; ws();
            if (i < s.size() && s[i] == ']') { ++i; return v; }
            for (;;)
            {
                v.a.push_back(parse());
                ws(); if (i < s.size() && s[i] == ',') { ++i; continue; }
                if (i < s.size() && s[i] == ']') { ++i; return v; }
                fail("array");
            }
        }
        if (c == '"')
        {
            ++i; std::string r;
            while (i < s.size() && s[i] != '"')
            {
                if (s[i] == '\\')
                {
                    ++i; if (i >= s.size()) fail("escape");
                    char e = s[i++];
                    switch (e)
                    {
                    case 'n': r += '\n'; break; case 'r': r += '\r'; break; case 't': r += '\t'; break;
                    case 'b': r += '\b'; break; case 'f': r += '\f'; break;
                    case 'u':
                    {
                        if (i + 4 > s.size()) fail("unicode");
                        unsigned v = unsigned(std::stoul(s.substr(i, 4), nullptr, 16)); i += 4;
                        r += char(v & 0xff);   // plans only ever contain \u00XX
                        break;
                    }
                    default: r += e;
                    }
                }
                else r += s[i++];
            }
            if (i >= s.size()) fail("string");
            ++i;
            return Value(r);
        }
        if (s.compare(i, 4, "true") == 0) { i += 4; return Value(true); }
        if (s.compare(i, 5, "false") == 0) { i += 5; return Value(false); }
        if (s.compare(i, 4, "null") == 0) { i += 4; return Value(); }
        size_t j = i; bool isf = false;
        if (j < s.size() && (s[j] == '-' || s[j] == '+')) ++j;
        while (j < s.size() && ((s[j] >= '0' && s[j] <= '9') || s[j] == '.' || s[j] == 'e' || s[j] == 'E' || s[j] == '-' || s[j] == '+'))
        { if (s[j] == '.' || s[j] == 'e' || s[j] == 'E') isf = true; ++j; }
        if (j == i) fail("value");
        std::string n = s.substr(i, j - i); i = j;
        if (isf) return Value(std::stod(n));
        return Value(int64_t(std::stoll(n)));
    }
};
inline Value parse(const std::string& s) { Parser p(s); return p.parse(); }

}  // namespace js
