#include "props_common.hpp"
namespace sim {
extern const Property kPropsC[] = { { "", nullptr, nullptr } };
extern const int kPropsCCount = 0;
}
