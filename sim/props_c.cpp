// C15 -- a parser object is immutable: calls are independent and thread-safe (DESIGN 6.6)
#include "props_common.hpp"

#include <algorithm>

namespace sim
{

static const ExecFlags kFlags{};

// everything a caller can observe of one call (and what the simulator observed on its seams)
static uint64_t fingerprint(const OpResult& o, std::string* text = nullptr)
{
    uint64_t h = 0x15151515;
    auto mixv = [&](uint64_t v) { h ^= v + 0x9e3779b97f4a7c15ull + (h << 6) + (h >> 2); };
    mixv(o.out.has_value); mixv(o.out.digest); mixv(uint64_t(o.out.exc));
    h = fnv(o.rec.wrote.data(), o.rec.wrote.size(), h);
    h = fnv(o.out.oss_text.data(), o.out.oss_text.size(), h);
    mixv(o.out.stream_bad);
    for (const auto& r : o.rec.reds) { mixv(uint64_t(r.rule)); mixv(r.digest); mixv(uint64_t(r.ctx)); }
    for (const auto& t : o.rec.termfs) { mixv(uint64_t(t.term)); mixv(uint64_t(t.off)); mixv(uint64_t(t.len)); }
    for (const auto& l : o.rec.lexes) { mixv(uint64_t(l.pos)); mixv(uint64_t(l.idx)); mixv(uint64_t(l.len)); mixv(uint64_t(l.line)); mixv(uint64_t(l.col)); mixv(uint64_t(l.inst_calls)); mixv(uint64_t(l.inst_last)); }
    mixv(uint64_t(o.rec.lexer_state_clobbered));
    mixv(o.out.ctx_acc); mixv(uint64_t(o.out.ctx_touches));
    mixv(uint64_t(o.rec.n_new)); mixv(uint64_t(o.rec.n_copy)); mixv(uint64_t(o.rec.n_move)); mixv(uint64_t(o.rec.n_del)); mixv(uint64_t(o.rec.live_after));
    mixv(uint64_t(o.rec.steps)); mixv(uint64_t(o.rec.rds)); mixv(uint64_t(o.rec.oob_read + o.rec.oob_iter + o.rec.bounds_bad));
    if (text)
    {
        *text = std::string("value=") + (o.out.has_value ? "yes" : "no") + " exc=" + std::to_string(o.out.exc) + " result=" + printable(o.out.text, 120) +
                " wrote='" + printable(o.out.oss_text.empty() ? o.rec.wrote : o.out.oss_text, 160) + "' functor_calls=" + std::to_string(o.rec.reds.size()) +
                " ctx=" + std::to_string(o.out.ctx_touches) + " steps=" + std::to_string(o.rec.steps);
        if (!o.rec.lexes.empty())
            *text += " lexer_object_at_first_request=(requests_seen=" + std::to_string(o.rec.lexes[0].inst_calls) + ",last_offset=" + std::to_string(o.rec.lexes[0].inst_last) + ")" +
                     (o.rec.lexer_state_clobbered ? " lexer_members_clobbered=" + std::to_string(o.rec.lexer_state_clobbered) : std::string());
    }
    return h;
}

static PlanOp gen_any_op(Rng& rng, bool thorough)
{
    std::vector<std::string> pk = keys_for({ "G1", "G2", "G3", "G4", "G5", "G6", "G7", "G8", "G9", "G10", "G11", "G12", "G13", "G14", "G15", "G16", "G17", "G18", "G19", "G20", "G21", "G22", "G23", "G24", "G25", "G27", "G28", "T1" });
    std::vector<std::string> rk = regex_keys();
    uint64_t k = rng.below(100);
    PlanOp op;
    if (k < 8 && !rk.empty())
    {
        op.parser = rng.pick(rk); op.api = API_MATCH; op.use_raw = true;
        auto re = ref::parse_regex(*regex_pattern(op.parser));
        op.raw = sample_regex(*re, rng, 5);
        if (rng.chance(1, 2)) add_byte_faults(op, rng, 1, nullptr);
        op.buffer = rng.pick(std::vector<int>{ BUF_SIM, BUF_STRING, BUF_VIEW, BUF_CSTRING });
        op.stream = rng.pick(std::vector<int>{ STR_NONE, STR_SIM, STR_OSS });
        op.verbose = rng.chance(1, 3);
        if (rng.chance(1, 4)) { op.api = API_MATCHER_DEBUG; op.raw.clear(); op.faults.clear(); op.stream = rng.chance(1, 2) ? STR_SIM : STR_OSS; }
        return op;
    }
    std::string key = rng.pick(pk);
    const ref::Model* m = model_for(grammar_of(key));
#ifndef SIM_ASAN
    // write_diag_str is part of C15's call mix for isolation and race detection (plain, tsan). It is left out of
    // the asan flavour: on grammars with a shift-preferred S/R conflict it indexes rule_infos with a state number
    // (UBSan aborts) -- a defect of the diagnostics text (C11, not claimed), not of call independence.
    if (k < 14)
#else
    if (false)
#endif
    {
        op.parser = key; op.api = API_DIAG; op.use_raw = true; op.stream = rng.chance(1, 2) ? STR_OSS : STR_SIM;
        op.heap = rng.chance(1, 3);
        return op;
    }
    OpShape sh;
    sh.budget = thorough ? 20 : 10;
    sh.ws_rich = rng.chance(1, 4);
    sh.buffers = { BUF_SIM, BUF_SIM, BUF_STRING, BUF_VIEW, BUF_CSTRING };
    sh.streams = { STR_SIM, STR_SIM, STR_NONE, STR_OSS };
    sh.p_verbose = 35;
    sh.allow_heap = true;
    op = make_sentence_op(rng, key, sh);
    uint64_t f = rng.below(100);
    if (f < 40) {}
    else if (f < 75) add_token_faults(op, rng, rng.range(1, 2), *m);
    else add_byte_faults(op, rng, rng.range(1, 2), m);
    if (rng.chance(2, 5)) op.api = rng.chance(1, 3) ? API_CONTEXT_PARSE_TEMP : API_CONTEXT_PARSE;
    if (m->g.custom_lexer && rng.chance(1, 5)) op.lex_fail_call = int64_t(rng.below(op.toks.size() + 1));
    // a call that leaves by exception (failing allocation inside the library or inside a functor): what it leaves
    // behind must not reach the next call of the same thread
    if (rng.chance(1, 8)) op.alloc_fail_at = int64_t(rng.below(12));
    return op;
}

// "Cold start": the very first calls a process ever makes on a handful of parsers, made by several tasks at once
// (write_diag_str, a verbose failing parse, a quiet parse). Anything the library initialises lazily on first use is
// initialised under interleaving here. Every worker process begins its batch with one of these (negative index).
static Plan gen_c15_cold(uint64_t seed, int64_t index)
{
    Rng rng(hash_seed(seed, "C15.cold", index));
    Plan p;
    p.seed = seed; p.index = index; p.property = "C15"; p.mode = "cold_start";
    p.interleaved_first = true;
    std::vector<std::string> pk = keys_for({ "G1", "G2", "G3", "G4", "G5", "G6", "G7", "G8", "G9", "G10", "G11", "G12", "G13", "G14", "G15", "G16", "G17", "G18", "G19", "G20", "G21", "G22", "G23", "G24", "G25", "G27", "G28", "T1" });
    std::vector<PlanOp> ops;
    for (int k = 0; k < 5; ++k)
    {
        std::string key = rng.pick(pk);
        const ref::Model* m = model_for(grammar_of(key));
#ifndef SIM_ASAN
        { PlanOp d; d.parser = key; d.api = API_DIAG; d.use_raw = true; d.stream = STR_SIM; ops.push_back(d); }
#endif
        OpShape sh; sh.budget = 6; sh.buffers = { BUF_SIM, BUF_STRING }; sh.streams = { STR_SIM }; sh.p_skip_ws_off = 0; sh.p_skip_nl_off = 0;
        PlanOp v = make_sentence_op(rng, key, sh); v.verbose = true; add_token_faults(v, rng, 1, *m); ops.push_back(v);
        PlanOp q = make_sentence_op(rng, key, sh); add_byte_faults(q, rng, 1, m); ops.push_back(q);
    }
    int nt = 3;
    for (int t = 0; t < nt; ++t)
    {
        PlanTask pt;
        for (size_t i = 0; i < ops.size(); ++i) pt.ops.push_back(ops[(i + size_t(t) * 3) % ops.size()]);
        p.tasks.push_back(pt);
    }
    for (int i = 0; i < 4096; ++i) p.schedule.push_back(rng.chance(45, 100) ? uint8_t(rng.range(1, 3)) : uint8_t(0));
    return p;
}

static Plan gen_c15(uint64_t seed, int64_t index, bool thorough)
{
    if (index < 0) return gen_c15_cold(seed, index);
    Rng rng(hash_seed(seed, "C15", index));
    Plan p;
    p.seed = seed; p.index = index; p.property = "C15";
    int nt = rng.range(2, 4);
    uint64_t k = rng.below(100);
    // swarm: switch density per run
    int density;     // percent of switch points that switch
    if (k < 12) { p.mode = "history"; density = 0; nt = rng.range(1, 3); }
    else if (k < 40) { p.mode = "sparse"; density = rng.range(1, 5); }
    else if (k < 80) { p.mode = "medium"; density = rng.range(6, 25); }
    else { p.mode = "dense"; density = rng.range(26, 60); }
    p.interleaved_first = rng.chance(1, 3);   // first calls (lazy initialisation) happen under interleaving
    p.share_streams = rng.chance(1, 2);       // each task logs all its calls to ONE long-lived std::ostream object
    p.share_options = rng.chance(1, 2);       // each task passes ONE long-lived parse_options object to all its calls
    bool same_parser = rng.chance(1, 2);      // bias: all tasks hammer one parser object
    std::string shared_key;
    for (int t = 0; t < nt; ++t)
    {
        PlanTask pt;
        int nops = rng.range(1, p.mode == "history" ? 4 : 3);
        for (int i = 0; i < nops; ++i)
        {
            PlanOp op = gen_any_op(rng, thorough);
            if (same_parser && op.api != API_MATCH)
            {
                if (shared_key.empty()) shared_key = op.parser;
                else if (grammar_of(shared_key) != grammar_of(op.parser))
                {
                    // regenerate on the shared parser: keep trying a few times
                    for (int tries = 0; tries < 8 && op.parser != shared_key; ++tries) op = gen_any_op(rng, thorough);
                }
            }
            pt.ops.push_back(op);
        }
        // re-entrancy: a functor of one call makes the task's next call itself (same thread, outer call on the stack);
        // each of the two must still behave as it does alone
        if (pt.ops.size() >= 2 && rng.chance(1, 4))
        {
            size_t i = size_t(rng.below(pt.ops.size() - 1));
            if (pt.ops[i].api != API_MATCH && pt.ops[i].api != API_DIAG && pt.ops[i].api != API_MATCHER_DEBUG) pt.ops[i].nest_at = int64_t(rng.below(3));
        }
        p.tasks.push_back(pt);
    }
    int len = thorough ? 2048 : 512;
    if (density > 0)
        for (int i = 0; i < len; ++i)
            p.schedule.push_back(rng.chance(density, 100) ? uint8_t(rng.range(1, 3)) : uint8_t(0));
    else
        p.schedule.push_back(uint8_t(rng.below(4)));   // which task starts
    return p;
}

// fixed canary calls: executed solo before and after every case; must keep giving identical outcomes
static Plan canary_plan()
{
    Plan p;
    p.seed = 0; p.index = 0; p.property = "C15"; p.mode = "canary";
    Rng rng(0xCA9A51);
    const char* keys[] = { "G1.node", "G2.node", "G5.node", "G6.node", "G7.pnode", "T1.node" };
    PlanTask t;
    for (const char* k : keys)
    {
        if (!find_fleet(k)) continue;
        const ref::Model* m = model_for(grammar_of(k));
        for (int variant = 0; variant < 2; ++variant)
        {
            OpShape sh; sh.budget = 8; sh.p_skip_ws_off = 0; sh.p_skip_nl_off = 0;
            sh.buffers = { variant ? BUF_STRING : BUF_SIM }; sh.streams = { STR_SIM };
            PlanOp op = make_sentence_op(rng, k, sh);
            op.verbose = variant == 1;
            if (variant == 0) add_token_faults(op, rng, 2, *m);      // failing / recovering call with a message
            if (variant == 1) op.api = API_CONTEXT_PARSE;
            t.ops.push_back(op);
        }
    }
    if (find_fleet("R1"))
    {
        PlanOp op; op.parser = "R1"; op.api = API_MATCH; op.use_raw = true; op.raw = "abbx"; op.stream = STR_SIM; op.buffer = BUF_SIM;
        t.ops.push_back(op);
        op.raw = "abbc"; op.verbose = true;
        t.ops.push_back(op);
    }
    p.tasks.push_back(t);
    return p;
}

static std::vector<uint64_t> run_canary(CaseCtx& cx, std::vector<std::string>* texts = nullptr)
{
    static const Plan cp = canary_plan();
    RunResult rr = exec_plan(cp, kFlags);
    cx.hashes.push_back(rr.hash);
    std::vector<uint64_t> f;
    for (const OpResult& o : rr.tasks[0])
    {
        std::string t;
        f.push_back(fingerprint(o, texts ? &t : nullptr));
        if (texts) texts->push_back(t);
    }
    if (cx.st) cx.st->add("canary_calls", int64_t(f.size()));
    return f;
}

static std::vector<Violation> case_c15(const Plan& p, CaseCtx& cx)
{
    std::vector<Violation> vs;
    // (no canaries around a cold-start case: they would make the first calls themselves)
    const bool with_canaries = p.mode != "cold_start";
    std::vector<std::string> ctext0;
    std::vector<uint64_t> canary0;
    if (with_canaries) canary0 = run_canary(cx, &ctext0);

    // solo runs of every op (each alone, single task, no switching), before and after the interleaved run
    auto solo = [&](std::vector<std::vector<uint64_t>>& fps, std::vector<std::vector<std::string>>& txt)
    {
        for (size_t t = 0; t < p.tasks.size(); ++t)
        {
            fps.emplace_back(); txt.emplace_back();
            for (size_t i = 0; i < p.tasks[t].ops.size(); ++i)
            {
                Plan s;
                s.seed = p.seed; s.index = p.index; s.property = "C15"; s.mode = "solo";
                s.tasks.emplace_back(); s.tasks[0].ops.push_back(p.tasks[t].ops[i]);
                s.tasks[0].ops[0].nest_at = -1;      // alone means: not re-entered, not re-entering
                s.hash_images = true;
                RunResult r = exec_plan(s, kFlags);
                cx.hashes.push_back(r.hash);
                std::string tx;
                fps.back().push_back(fingerprint(r.tasks[0][0], &tx));
                txt.back().push_back(tx);
                if (cx.st) { ++cx.st->runs; cx.st->add("solo_runs"); }
            }
        }
    };
    std::vector<std::vector<uint64_t>> before, after;
    std::vector<std::vector<std::string>> tb, ta;
    if (!p.interleaved_first) solo(before, tb);

    Plan ph = p; ph.hash_images = true;
    RunResult rr = exec_plan(ph, kFlags);
    account(cx, p, rr, rr.overlap > 0 || (p.mode == "history" && p.tasks.size() >= 1));
    if (cx.st)
    {
        cx.st->add("mode." + p.mode);
        cx.st->add("tasks", int64_t(p.tasks.size()));
        if (p.share_streams) cx.st->add("probe.calls_sharing_one_stream_object");
        if (p.share_options) cx.st->add("probe.calls_sharing_one_options_object");
    }

    solo(after, ta);
    if (p.interleaved_first) { solo(before, tb); if (cx.st) cx.st->add("probe.interleaved_run_before_any_solo_run"); }   // "before" = a second solo pass
    std::vector<std::string> ctext1;
    std::vector<uint64_t> canary1;
    if (with_canaries) canary1 = run_canary(cx, &ctext1);

    for (size_t t = 0; t < p.tasks.size(); ++t)
        for (size_t i = 0; i < p.tasks[t].ops.size(); ++i)
        {
            const OpResult& o = rr.tasks[t][i];
            std::string tx;
            uint64_t f = fingerprint(o, &tx);
            std::string who = "task " + std::to_string(t) + " op " + std::to_string(i) + " (" + o.op.parser + ", api " + std::to_string(o.op.api) + ", input '" + printable(o.rend.bytes, 80) + "')";
            if (o.rec.ran_nested) who += " [called from inside functor call #" + std::to_string(rr.tasks[t][i - 1].op.nest_at) + " of op " + std::to_string(i - 1) + "]";
            if (o.rec.nest_fired) who += " [its functor call #" + std::to_string(o.op.nest_at) + " itself made the call of op " + std::to_string(i + 1) + "]";
            if (cx.st && o.rec.ran_nested) cx.st->add("probe.reentrant_call_from_inside_a_functor");
            const bool reentry = o.rec.ran_nested || o.rec.nest_fired;
            // 1. isolation: the call under interleaving == the same call alone
            if (f != before[t][i])
            {
                vs.push_back(make_violation("C15", reentry ? "result_differs_when_reentered" : p.tasks.size() > 1 && rr.switches > 0 ? "result_differs_under_interleaving" : "result_depends_on_earlier_calls",
                    who + ": alone {" + tb[t][i] + "} but among the other calls {" + tx + "}", p));
                return vs;
            }
            if (before[t][i] != after[t][i])
            {
                vs.push_back(make_violation("C15", "result_depends_on_earlier_calls", who + ": alone before {" + tb[t][i] + "}, alone afterwards {" + ta[t][i] + "}", p));
                return vs;
            }
            // 2b. the functors that ran belong to the parser object the call was made on (two objects of one C++ type differ
            //     only in the state of their functor objects: a per-TYPE cache of the first object's functors is shared state)
            if (o.rec.foreign_functor_calls > 0)
            {
                vs.push_back(make_violation("C15", "functors_of_another_parser_object_ran", who + ": " + std::to_string(o.rec.foreign_functor_calls) +
                    " rule functor call(s) were made on functor objects that belong to the OTHER instance of this parser type (" + (o.op.heap ? "called on the run-time built instance" : "called on the constexpr instance") + ")", p));
                return vs;
            }
            // 2c. the functors were reached as const objects (parse is a const member function; a non-const call operator
            //     may write into the functor, that is into the parser object)
            if (o.rec.mutable_functor_calls > 0)
            {
                vs.push_back(make_violation("C15", "functor_reached_through_nonconst_access", who + ": " + std::to_string(o.rec.mutable_functor_calls) +
                    " rule functor call(s) selected the functor's NON-CONST call operator: the library handed out mutable access to a member of the parser object", p));
                return vs;
            }
            // 3. object image
            if (o.out.image_before != o.out.image_after)
            {
                vs.push_back(make_violation("C15", "parser_object_modified", who + ": the bytes of the parser object changed during the call", p));
                return vs;
            }
            // 4. context confinement
            int64_t ctx_reds = 0; for (const auto& r : o.rec.reds) if (r.ctx >= 2) ++ctx_reds;
            if (o.rec.ctx_foreign || (o.out.exc == 0 && (o.rec.ctx_touches != ctx_reds || (o.op.api == API_CONTEXT_PARSE && o.out.ctx_touches != int(ctx_reds)))))
            {
                vs.push_back(make_violation("C15", "context_not_confined", who + ": a contextual functor received another call's context, or the context was touched " +
                    std::to_string(o.rec.ctx_touches) + "x for " + std::to_string(ctx_reds) + " contextual reductions", p));
                return vs;
            }
            if (cx.st && o.op.api == API_CONTEXT_PARSE) cx.st->add("contexts_checked");
            if (cx.st) cx.st->add(o.op.heap ? "heap_instance_images_checked" : "static_instance_images_checked");
        }
    // 2. canaries
    for (size_t i = 0; i < canary0.size() && i < canary1.size(); ++i)
        if (canary0[i] != canary1[i])
        {
            vs.push_back(make_violation("C15", "state_leaks_into_later_calls", "fixed canary call #" + std::to_string(i) + " gave {" + ctext0[i] + "} before this history and {" + ctext1[i] + "} after it", p));
            return vs;
        }
    // 5. happens-before race detection under the deterministic schedule (tsan flavour)
    if (rr.tsan_reports > 0)
        vs.push_back(make_violation("C15", "data_race", std::to_string(rr.tsan_reports) + " ThreadSanitizer report(s) during this run: two calls touched the same memory, at least one writing, with nothing ordering them", p));
    return vs;
}

extern const Property kPropsC[] = {
    { "C15", &gen_c15, &case_c15 },
};
extern const int kPropsCCount = 1;

}  // namespace sim
