// Plans: the complete, replayable description of one simulated run (DESIGN 3.5).
#pragma once
#include "json.hpp"
#include "op.hpp"
#include "ref.hpp"

#include <cstdint>
#include <map>
#include <string>
#include <vector>

namespace sim
{

// ---- PRNG: splitmix64 -> xoshiro256** (no std:: distributions: results must not depend on the library)
struct Rng
{
    uint64_t s[4];
    explicit Rng(uint64_t seed)
    {
        uint64_t z = seed;
        for (int i = 0; i < 4; ++i)
        {
            z += 0x9e3779b97f4a7c15ull;
            uint64_t x = z;
            x = (x ^ (x >> 30)) * 0xbf58476d1ce4e5b9ull;
            x = (x ^ (x >> 27)) * 0x94d049bb133111ebull;
            s[i] = x ^ (x >> 31);
        }
    }
    static uint64_t rotl(uint64_t x, int k) { return (x << k) | (x >> (64 - k)); }
    uint64_t next()
    {
        uint64_t r = rotl(s[1] * 5, 7) * 9, t = s[1] << 17;
        s[2] ^= s[0]; s[3] ^= s[1]; s[1] ^= s[2]; s[0] ^= s[3]; s[2] ^= t; s[3] = rotl(s[3], 45);
        return r;
    }
    uint64_t below(uint64_t n) { return n ? next() % n : 0; }
    int range(int lo, int hi) { return lo + int(below(uint64_t(hi - lo + 1))); }
    bool chance(int num, int den) { return below(uint64_t(den)) < uint64_t(num); }
    template<typename T> const T& pick(const std::vector<T>& v) { return v[size_t(below(v.size()))]; }
};
uint64_t hash_seed(uint64_t seed, const std::string& property, int64_t index);

// ---- plan ---------------------------------------------------------------------------------------
struct PTok { int term = 0; std::string lex; std::string ws; };

struct Fault
{
    std::string kind;     // tok_drop tok_dup tok_swap tok_ins ws flip trunc ins
    int64_t a = 0, b = 0;
    std::string s;
};

struct PlanOp
{
    std::string parser;            // fleet key ("G1.node", "R3", ...)
    int api = API_PARSE;
    bool heap = false;
    int buffer = BUF_SIM, stream = STR_SIM;
    bool verbose = false, skip_ws = true, skip_nl = true;
    std::vector<PTok> toks; std::string tail;   // base sentence
    bool use_raw = false; std::string raw;       // or raw bytes (regex matchers, byte soup)
    std::vector<Fault> faults;                   // input faults, applied in order
    int64_t stream_fail_after = -1; int stream_fail_mode = 0;
    int64_t alloc_fail_at = -1;
    int64_t lex_fail_call = -1;
    int64_t nest_at = -1;          // C15 re-entrancy: functor call #nest_at of this op makes the task's next op itself
};

struct PlanTask { std::vector<PlanOp> ops; };

struct Plan
{
    uint64_t seed = 0; int64_t index = 0;
    std::string property;
    std::string mode;              // sub-batch label (fault-free / faulty / ...)
    std::vector<PlanTask> tasks;
    std::vector<uint8_t> schedule;
    bool hash_images = false;      // not serialised: set by the property's case function
    bool interleaved_first = false; // C15: the interleaved run precedes every solo run of the case
    bool share_options = false;    // every task passes ONE long-lived parse_options object (set anew before each call) to all its calls
    bool share_streams = false;    // every task uses ONE long-lived std::ostream object for all its STR_SIM calls
};

js::Value to_json(const Plan& p);
Plan plan_from_json(const js::Value& v);
std::string hex(const std::string& s);
std::string unhex(const std::string& s);

// ---- rendering: plan op -> bytes the library sees ---------------------------------------------
struct Rendered
{
    std::string bytes;
    std::vector<ref::LexAns> script;     // custom-lexer answers by position
    int faults_fired = 0;
    std::map<std::string, int> fired;    // per kind
    int effective_buffer = BUF_SIM;      // cstring falls back to string when no size fits
    bool nul_or_high = false;
};
Rendered render(const PlanOp& op, bool custom_lexer);

// ---- models (reference) per grammar ---------------------------------------------------------------
const ref::Model* model_for(const std::string& grammar);   // canonical LR(1) tables; nullptr for R*/L1
const ref::Model* real_model_for(const std::string& fleet_key);   // the documented driver over the parser's OWN table
std::string grammar_of(const std::string& fleet_key);
const std::string* regex_pattern(const std::string& id);

// ---- generation -------------------------------------------------------------------------------------
struct GenConfig
{
    bool thorough = false;
};
std::vector<PTok> gen_sentence(const ref::Model& m, Rng& rng, int budget, bool ws_rich, bool skip_ws, bool skip_nl, bool dense = false);
std::string sample_regex(const ref::Re& re, Rng& rng, int loop_max);
Plan gen_plan(const std::string& property, uint64_t seed, int64_t index, const GenConfig& cfg);

}  // namespace sim
