// Reference model implementation (see ref.hpp).
#include "ref.hpp"
#include "digest.hpp"

#include <algorithm>
#include <map>
#include <stdexcept>

namespace ref
{

std::string GrammarSpec::term_name(int t) const
{
    if (t == eof_idx()) return "<eof>";
    if (t == err_idx()) return "<error_recovery_token>";
    if (t >= 0 && t < int(terms.size())) return terms[t].name;
    return "?";
}

bool is_ws(unsigned char c, bool skip_nl)
{
    // README "Parse options": whitespace between terms is skipped; '\n' only if skip_newline
    switch (c)
    {
    case 0x09: case 0x0b: case 0x0c: case 0x0d: case 0x20: return true;
    case 0x0a: return skip_nl;
    default: return false;
    }
}

// ---------------------------------------------------------------------------------------------
// regex parsing (README "Regular expressions")
namespace
{
    using ReP = std::shared_ptr<Re>;

    ReP mk(Re::K k) { auto r = std::make_shared<Re>(); r->k = k; return r; }
    ReP mk_set(const std::bitset<256>& s) { auto r = mk(Re::SET); r->set = s; return r; }

    bool is_hex(char c) { return (c >= '0' && c <= '9') || (c >= 'a' && c <= 'f') || (c >= 'A' && c <= 'F'); }
    int hexv(char c) { return c <= '9' ? c - '0' : (c | 32) - 'a' + 10; }

    struct RegexParser
    {
        const std::string& s;
        size_t i = 0;
        explicit RegexParser(const std::string& s) : s(s) {}

        [[noreturn]] void fail(const char* what) { throw std::runtime_error(std::string("regex: ") + what + " in '" + s + "'"); }
        bool at_end() const { return i >= s.size(); }

        // one (possibly escaped) character inside or outside a set
        unsigned char single()
        {
            if (at_end()) fail("unexpected end");
            char c = s[i++];
            if (c != '\\') return (unsigned char)c;
            if (at_end()) fail("dangling backslash");
            char e = s[i++];
            if (e == 'x')
            {
                int v = 0, digits = 0;
                while (digits < 2 && !at_end() && is_hex(s[i])) { v = v * 16 + hexv(s[i]); ++i; ++digits; }
                return (unsigned char)v;
            }
            return (unsigned char)e;
        }

        ReP set_expr()
        {
            // s[i-1] == '['
            std::bitset<256> b;
            bool neg = false;
            if (!at_end() && s[i] == '^') { neg = true; ++i; }
            if (at_end()) fail("unterminated set");
            while (!at_end() && s[i] != ']')
            {
                unsigned char c1 = single();
                if (!at_end() && s[i] == '-' && i + 1 < s.size() && s[i + 1] != ']')
                {
                    ++i;
                    unsigned char c2 = single();
                    for (int c = c1; c <= c2; ++c) b.set(size_t(c));
                }
                else
                    b.set(c1);
            }
            if (at_end()) fail("unterminated set");
            ++i;
            if (neg) b.flip();
            return mk_set(b);
        }

        ReP primary()
        {
            if (at_end()) fail("primary expected");
            char c = s[i];
            if (c == '(')
            {
                ++i;
                ReP r = alt();
                if (at_end() || s[i] != ')') fail("')' expected");
                ++i;
                return r;
            }
            if (c == '[') { ++i; return set_expr(); }
            if (c == '.') { ++i; std::bitset<256> b; b.set(); return mk_set(b); }
            if (c == '*' || c == '+' || c == '?' || c == '|' || c == ')' || c == '{' || c == '}') fail("unexpected special");
            std::bitset<256> b;
            b.set(single());
            return mk_set(b);
        }

        ReP qexpr()
        {
            ReP p = primary();
            if (at_end()) return p;
            char c = s[i];
            if (c == '*') { ++i; auto r = mk(Re::STAR); r->ch.push_back(p); return r; }
            if (c == '+') { ++i; auto r = mk(Re::PLUS); r->ch.push_back(p); return r; }
            if (c == '?') { ++i; auto r = mk(Re::OPT); r->ch.push_back(p); return r; }
            if (c == '{')
            {
                ++i;
                int n = 0, digits = 0;
                while (!at_end() && s[i] >= '0' && s[i] <= '9') { n = n * 10 + (s[i] - '0'); ++i; ++digits; }
                if (!digits || at_end() || s[i] != '}') fail("bad repetition");
                ++i;
                auto r = mk(Re::REP); r->ch.push_back(p); r->n = n;
                return r;
            }
            return p;
        }

        ReP concat()
        {
            ReP r = qexpr();
            while (!at_end() && s[i] != '|' && s[i] != ')')
            {
                ReP q = qexpr();
                auto c = mk(Re::CAT); c->ch.push_back(r); c->ch.push_back(q);
                r = c;
            }
            return r;
        }

        ReP alt()
        {
            ReP r = concat();
            while (!at_end() && s[i] == '|')
            {
                ++i;
                ReP q = concat();
                auto a = mk(Re::ALT); a->ch.push_back(r); a->ch.push_back(q);
                r = a;
            }
            return r;
        }
    };

    struct NfaBuilder
    {
        Nfa n;
        int add() { n.st.emplace_back(); return int(n.st.size()) - 1; }
        // returns (start, accept)
        std::pair<int, int> build(const Re& r)
        {
            switch (r.k)
            {
            case Re::SET:
            {
                int a = add(), b = add();
                n.st[a].tr.emplace_back(r.set, b);
                return { a, b };
            }
            case Re::CAT:
            {
                auto x = build(*r.ch[0]); auto y = build(*r.ch[1]);
                n.st[x.second].eps.push_back(y.first);
                return { x.first, y.second };
            }
            case Re::ALT:
            {
                int a = add(), b = add();
                auto x = build(*r.ch[0]); auto y = build(*r.ch[1]);
                n.st[a].eps.push_back(x.first); n.st[a].eps.push_back(y.first);
                n.st[x.second].eps.push_back(b); n.st[y.second].eps.push_back(b);
                return { a, b };
            }
            case Re::STAR:
            {
                int a = add(), b = add();
                auto x = build(*r.ch[0]);
                n.st[a].eps.push_back(x.first); n.st[a].eps.push_back(b);
                n.st[x.second].eps.push_back(x.first); n.st[x.second].eps.push_back(b);
                return { a, b };
            }
            case Re::PLUS:
            {
                int b = add();
                auto x = build(*r.ch[0]);
                n.st[x.second].eps.push_back(x.first); n.st[x.second].eps.push_back(b);
                return { x.first, b };
            }
            case Re::OPT:
            {
                int a = add(), b = add();
                auto x = build(*r.ch[0]);
                n.st[a].eps.push_back(x.first); n.st[a].eps.push_back(b);
                n.st[x.second].eps.push_back(b);
                return { a, b };
            }
            case Re::REP:
            {
                int a = add();
                int cur = a;
                for (int i = 0; i < r.n; ++i)
                {
                    auto x = build(*r.ch[0]);
                    n.st[cur].eps.push_back(x.first);
                    cur = x.second;
                }
                return { a, cur };
            }
            }
            return { 0, 0 };
        }
    };

    void eps_closure(const Nfa& n, std::vector<char>& in, std::vector<int>& list)
    {
        for (size_t i = 0; i < list.size(); ++i)
            for (int e : n.st[size_t(list[i])].eps)
                if (!in[size_t(e)]) { in[size_t(e)] = 1; list.push_back(e); }
    }
}

std::shared_ptr<Re> parse_regex(const std::string& pattern)
{
    RegexParser p(pattern);
    auto r = p.alt();
    if (!p.at_end()) p.fail("trailing input");
    return r;
}

std::shared_ptr<Re> literal_regex(const std::string& text)
{
    ReP r;
    for (char c : text)
    {
        std::bitset<256> b; b.set((unsigned char)c);
        ReP s = mk_set(b);
        if (!r) r = s;
        else { auto cat = mk(Re::CAT); cat->ch.push_back(r); cat->ch.push_back(s); r = cat; }
    }
    if (!r) throw std::runtime_error("empty literal term");
    return r;
}

Nfa build_nfa(const Re& re)
{
    NfaBuilder b;
    auto se = b.build(re);
    b.n.start = se.first; b.n.accept = se.second;
    return b.n;
}

Lexer::Lexer(const GrammarSpec& g)
{
    for (const TermSpec& t : g.terms)
    {
        std::shared_ptr<Re> r;
        if (t.kind == T_REGEX) r = parse_regex(t.data);
        else if (t.kind == T_CHAR || t.kind == T_STRING) r = literal_regex(t.data);
        else throw std::runtime_error("custom term in a generated-lexer grammar");
        res.push_back(r);
        nfas.push_back(build_nfa(*r));
    }
}

LexResult Lexer::match(const char* p, int64_t n) const
{
    size_t T = nfas.size();
    std::vector<std::vector<int>> cur(T);
    std::vector<std::vector<char>> in(T);
    for (size_t t = 0; t < T; ++t)
    {
        in[t].assign(nfas[t].st.size(), 0);
        cur[t].push_back(nfas[t].start); in[t][size_t(nfas[t].start)] = 1;
        eps_closure(nfas[t], in[t], cur[t]);
    }
    LexResult r;
    int64_t i = 0;
    for (;;)
    {
        if (i > 0)
            for (size_t t = 0; t < T; ++t)
                if (in[t][size_t(nfas[t].accept)] && !cur[t].empty())
                {
                    if (i > r.len) { r.len = i; r.term = int(t); }
                }
        bool any = false;
        for (size_t t = 0; t < T; ++t) if (!cur[t].empty()) { any = true; break; }
        if (!any || i == n) break;
        unsigned char c = (unsigned char)p[i];
        for (size_t t = 0; t < T; ++t)
        {
            if (cur[t].empty()) continue;
            std::vector<int> nxt; std::vector<char> nin(nfas[t].st.size(), 0);
            for (int s : cur[t])
                for (const auto& tr : nfas[t].st[size_t(s)].tr)
                    if (tr.first.test(c) && !nin[size_t(tr.second)]) { nin[size_t(tr.second)] = 1; nxt.push_back(tr.second); }
            eps_closure(nfas[t], nin, nxt);
            cur[t].swap(nxt); in[t].swap(nin);
        }
        ++i;
    }
    r.dead = i;
    return r;
}

LexResult DfaLexer::match(const char* p, int64_t n) const
{
    LexResult r;
    int st = 0;
    int64_t i = 0;
    for (;;)
    {
        if (st >= 0 && st < nstates && recognized[size_t(st)] >= 0 && i > 0) { r.term = recognized[size_t(st)]; r.len = i; }
        if (i == n) { r.dead = n; break; }
        int nx = (st >= 0 && st < nstates) ? next[size_t(st)][(unsigned char)p[i]] : -1;
        if (nx < 0) { r.dead = i + 1; break; }
        st = nx;
        ++i;
    }
    return r;
}

// ---------------------------------------------------------------------------------------------
// canonical LR(1)
namespace
{
    struct Item
    {
        int rule, dot, la;
        bool operator<(const Item& o) const
        {
            if (rule != o.rule) return rule < o.rule;
            if (dot != o.dot) return dot < o.dot;
            return la < o.la;
        }
        bool operator==(const Item& o) const { return rule == o.rule && dot == o.dot && la == o.la; }
    };
    using ItemSet = std::set<Item>;

    struct LrBuilder
    {
        const GrammarSpec& g;
        int R;                                  // index of the augmented rule
        std::vector<RuleSpec> rules;            // user rules + augmented
        std::vector<bool> nullable;             // per nterm (incl. augmented)
        std::vector<std::set<int>> first;       // per nterm

        explicit LrBuilder(const GrammarSpec& g) : g(g)
        {
            rules = g.rules;
            R = int(rules.size());
            RuleSpec aug; aug.lhs = int(g.nterms.size()); aug.rhs.push_back(Sym{ false, g.root }); aug.ftor = F_DEFAULT;
            rules.push_back(aug);
            size_t N = g.nterms.size() + 1;
            nullable.assign(N, false); first.assign(N, {});
            bool ch = true;
            while (ch)
            {
                ch = false;
                for (const RuleSpec& r : rules)
                {
                    bool all_null = true;
                    for (const Sym& s : r.rhs)
                    {
                        if (s.term)
                        {
                            if (first[size_t(r.lhs)].insert(s.idx).second) ch = true;
                            all_null = false; break;
                        }
                        for (int t : first[size_t(s.idx)]) if (first[size_t(r.lhs)].insert(t).second) ch = true;
                        if (!nullable[size_t(s.idx)]) { all_null = false; break; }
                    }
                    if (all_null && !nullable[size_t(r.lhs)]) { nullable[size_t(r.lhs)] = true; ch = true; }
                }
            }
        }

        std::set<int> first_of(const std::vector<Sym>& rhs, size_t from, int la) const
        {
            std::set<int> f;
            for (size_t i = from; i < rhs.size(); ++i)
            {
                const Sym& s = rhs[i];
                if (s.term) { f.insert(s.idx); return f; }
                f.insert(first[size_t(s.idx)].begin(), first[size_t(s.idx)].end());
                if (!nullable[size_t(s.idx)]) return f;
            }
            f.insert(la);
            return f;
        }

        ItemSet closure(ItemSet I) const
        {
            std::vector<Item> work(I.begin(), I.end());
            while (!work.empty())
            {
                Item it = work.back(); work.pop_back();
                const RuleSpec& r = rules[size_t(it.rule)];
                if (size_t(it.dot) >= r.rhs.size()) continue;
                const Sym& s = r.rhs[size_t(it.dot)];
                if (s.term) continue;
                std::set<int> las = first_of(r.rhs, size_t(it.dot) + 1, it.la);
                for (size_t k = 0; k < rules.size(); ++k)
                    if (rules[k].lhs == s.idx)
                        for (int la : las)
                        {
                            Item ni{ int(k), 0, la };
                            if (I.insert(ni).second) work.push_back(ni);
                        }
            }
            return I;
        }

        int rule_last_term(const RuleSpec& r) const
        {
            for (size_t i = r.rhs.size(); i-- > 0;) if (r.rhs[i].term) return r.rhs[i].idx;
            return -1;
        }
        int term_prec(int t) const { return t < int(g.terms.size()) ? g.terms[size_t(t)].prec : 0; }
        int term_assoc(int t) const { return t < int(g.terms.size()) ? g.terms[size_t(t)].assoc : A_NONE; }

        // README "Precedence and associativity summary"
        bool prefer_reduce(const RuleSpec& r, int t) const
        {
            int lt = rule_last_term(r);
            int rp = r.prec != 0 ? r.prec : (lt >= 0 ? term_prec(lt) : 0);
            int tp = term_prec(t);
            if (rp > tp) return true;
            if (rp == tp && lt >= 0 && term_assoc(lt) == A_LTOR) return true;
            return false;
        }

        Tables build()
        {
            Tables tb;
            int T = g.term_count();
            int N = int(g.nterms.size());
            std::vector<ItemSet> states;
            std::map<ItemSet, int> index;
            ItemSet s0; s0.insert(Item{ R, 0, g.eof_idx() });
            s0 = closure(s0);
            states.push_back(s0); index[s0] = 0;
            for (size_t si = 0; si < states.size(); ++si)
            {
                tb.action.emplace_back(size_t(T)); tb.go.emplace_back(size_t(N), -1);
                const ItemSet I = states[si];
                // transitions
                std::map<std::pair<bool, int>, ItemSet> moves;
                for (const Item& it : I)
                {
                    const RuleSpec& r = rules[size_t(it.rule)];
                    if (size_t(it.dot) < r.rhs.size())
                    {
                        const Sym& s = r.rhs[size_t(it.dot)];
                        moves[{ s.term, s.idx }].insert(Item{ it.rule, it.dot + 1, it.la });
                    }
                }
                std::map<std::pair<bool, int>, int> target;
                for (auto& mv : moves)
                {
                    ItemSet J = closure(mv.second);
                    auto f = index.find(J);
                    int j;
                    if (f == index.end()) { j = int(states.size()); states.push_back(J); index[J] = j; }
                    else j = f->second;
                    target[mv.first] = j;
                }
                for (auto& tg : target)
                {
                    if (tg.first.first) { Action& a = tb.action[si][size_t(tg.first.second)]; a.k = Action::SHIFT; a.arg = tg.second; }
                    else tb.go[si][size_t(tg.first.second)] = tg.second;
                }
                // reductions
                for (const Item& it : I)
                {
                    const RuleSpec& r = rules[size_t(it.rule)];
                    if (size_t(it.dot) < r.rhs.size()) continue;
                    Action& a = tb.action[si][size_t(it.la)];
                    if (it.rule == R)
                    {
                        a.k = Action::ACCEPT; a.arg = -1;
                        continue;
                    }
                    if (a.k == Action::REDUCE && a.arg != it.rule) { tb.rr_conflict = true; continue; }
                    if (a.k == Action::ACCEPT) continue;
                    if (a.k == Action::SHIFT)
                    {
                        a.sr_conflict = true;
                        if (prefer_reduce(r, it.la)) { a.k = Action::REDUCE; a.arg = it.rule; }
                        else
                        {
                            int lt = rule_last_term(r);
                            int rp = r.prec != 0 ? r.prec : (lt >= 0 ? term_prec(lt) : 0);
                            if (rp == 0 && term_prec(it.la) == 0) ++tb.unresolved_sr;
                        }
                        continue;
                    }
                    a.k = Action::REDUCE; a.arg = it.rule;
                }
            }
            tb.nstates = int(states.size());
            return tb;
        }
    };
}

Tables build_lr1(const GrammarSpec& g)
{
    LrBuilder b(g);
    return b.build();
}

Model::Model(const GrammarSpec& gs) : g(gs), t(build_lr1(gs))
{
    if (!g.custom_lexer) lexer.reset(new Lexer(g));
}

// ---------------------------------------------------------------------------------------------
// driver
const char* act_name(Act::K k)
{
    static const char* const n[] = { "RECOGNIZED", "SHIFT", "SHIFT_ERR", "REDUCE", "GOTO", "SYNTAX_ERROR", "UNEXPECTED_CHAR",
        "ENTER_RECOVERY", "RECOVERING_TO", "COULD_NOT_RECOVER", "LEAVE_RECOVERY", "ENTER_CONSUME", "LEAVE_CONSUME",
        "CONSUME_TERM", "SUCCESS" };
    return n[int(k)];
}

namespace
{
    struct Val
    {
        uint64_t digest;
        uint64_t sdigest;
        std::string text;
        std::string lex;      // (shifted terms only, short lexemes)
    };

    std::string pos_str(int line, int col) { return "[" + std::to_string(line) + ":" + std::to_string(col) + "]"; }
}

RefResult run(const Model& m, const char* bytes, int64_t n, const RunOptions& opt)
{
    const GrammarSpec& g = m.g;
    const Tables& tb = m.t;
    RefResult res;

    std::vector<int> states{ 0 };
    std::vector<Val> values;
    int64_t pos = 0;
    int line = 1, col = 1;

    bool have_term = false;
    Token cur{ -1, 0, 0, 1, 1 };
    bool eof_recorded = false;
    bool recovering = false, consuming = false;
    int pops_this_recovery = 0;
    int64_t lex_call_no = 0;

    auto note_first_message_limit = [&](int64_t limit)
    {
        if (res.read_limit_at_first_message < 0 && res.messages.size() == 1) res.read_limit_at_first_message = limit;
    };
    // highest offset that may legitimately have been examined so far: the look-ahead needed to delimit ANY term
    // lexed up to now (a longest-match lexer reads on until no term can continue, then falls back)
    int64_t cur_read_limit = -1;
    auto raise_limit = [&](int64_t v) { if (v > cur_read_limit) cur_read_limit = v; };

    for (;;)
    {
        if (++res.steps > opt.max_steps) { res.step_limit = true; break; }
        res.max_depth = std::max(res.max_depth, int(states.size()));
        int state = states.back();
        int t;

        if (recovering)
            t = g.err_idx();
        else
        {
            if (!have_term)
            {
                if (opt.skip_ws)
                    while (pos < n && is_ws((unsigned char)bytes[pos], opt.skip_nl))
                    {
                        advance_pos(line, col, bytes + pos, 1);
                        ++pos;
                    }
                if (pos >= n)
                {
                    cur = Token{ g.eof_idx(), pos, 0, line, col };
                    raise_limit(n - 1);
                    if (!eof_recorded)
                    {
                        eof_recorded = true;
                        res.tokens.push_back(cur);
                        Act a; a.k = Act::RECOGNIZED; a.a = cur.term; a.line = line; a.col = col; a.s = g.term_name(cur.term);
                        res.acts.push_back(a);
                    }
                    have_term = true;
                }
                else
                {
                    int idx = -1; int64_t len = 0;
                    if (g.custom_lexer)
                    {
                        int64_t call = lex_call_no++;
                        if (call != opt.lex_fail_call && opt.script)
                            for (const LexAns& a : *opt.script)
                                if (a.pos == pos)
                                {
                                    if (a.idx >= 0 && a.len >= 1 && pos + a.len <= n) { idx = a.idx; len = a.len; }
                                    break;
                                }
                        res.lexcalls.push_back(RefResult::LexCall{ pos, line, col, idx, len });
                        raise_limit(std::max<int64_t>(pos, pos + len - 1));
                    }
                    else
                    {
                        LexResult lr = m.dfa ? m.dfa->match(bytes + pos, n - pos) : m.lexer->match(bytes + pos, n - pos);
                        idx = lr.term; len = lr.len;
                        raise_limit(pos + lr.dead - 1);
                    }
                    if (idx < 0)
                    {
                        res.lexical_error = true;
                        if (consuming) res.error_in_consume_lexical = true;
                        std::string msg = pos_str(line, col) + " PARSE: Unexpected character: ";
                        msg.push_back(bytes[pos]);
                        msg += "\n";
                        res.messages.push_back(msg);
                        note_first_message_limit(cur_read_limit);
                        Act a; a.k = Act::UNEXPECTED_CHAR; a.a = (unsigned char)bytes[pos]; a.line = line; a.col = col;
                        res.acts.push_back(a);
                        break;
                    }
                    cur = Token{ idx, pos, len, line, col };
                    res.tokens.push_back(cur);
                    Act a; a.k = Act::RECOGNIZED; a.a = idx; a.line = line; a.col = col; a.s = g.term_name(idx);
                    res.acts.push_back(a);
                    have_term = true;
                }
            }
            t = cur.term;
        }

        const Action& act = tb.action[size_t(state)][size_t(t)];

        if (act.k == Action::ERR)
        {
            if (consuming)
            {
                // discard input terms until one the parser can act on; end of input while discarding fails
                if (cur.term == g.eof_idx()) { res.rec_fail_eof = true; break; }
                Act a; a.k = Act::CONSUME_TERM; a.a = cur.term; a.line = line; a.col = col; a.s = g.term_name(cur.term);
                res.acts.push_back(a);
                ++res.discarded_terms;
                advance_pos(line, col, bytes + cur.off, cur.len);
                pos = cur.off + cur.len;
                have_term = false;
                continue;
            }
            if (!recovering)
            {
                ++res.syntax_errors;
                res.messages.push_back(pos_str(line, col) + " PARSE: Syntax error: Unexpected '" + g.term_name(cur.term) + "'\n");
                note_first_message_limit(cur_read_limit);
                Act a; a.k = Act::SYNTAX_ERROR; a.a = cur.term; a.line = line; a.col = col; a.s = g.term_name(cur.term);
                res.acts.push_back(a);
                if (!g.has_error_rules)
                {
                    // no rule mentions the error symbol: nothing on the stack can accept it
                    // (the library still walks the stack; the outcome is the same: no value)
                }
                recovering = true;
                pops_this_recovery = 0;
                Act e; e.k = Act::ENTER_RECOVERY; e.line = line; e.col = col;
                res.acts.push_back(e);
                if (!opt.legacy_pop_first)
                    continue;       // present the error symbol to the current state first (C08: "discarding none if ...")
            }
            // the state on top cannot act on the error symbol: discard it
            states.pop_back();
            if (!values.empty()) values.pop_back();
            ++pops_this_recovery;
            if (states.empty())
            {
                res.rec_fail_stack = true;
                Act a; a.k = Act::COULD_NOT_RECOVER; a.line = line; a.col = col;
                res.acts.push_back(a);
                break;
            }
            Act a; a.k = Act::RECOVERING_TO; a.a = states.back(); a.line = line; a.col = col;
            res.acts.push_back(a);
            continue;
        }

        if (consuming)
        {
            if (cur.term == g.eof_idx()) res.eof_acted_on_in_consume = true;
            consuming = false;
            Act a; a.k = Act::LEAVE_CONSUME; a.line = line; a.col = col;
            res.acts.push_back(a);
        }

        if (act.k == Action::SHIFT)
        {
            if (t == g.err_idx())
            {
                Act a; a.k = Act::SHIFT_ERR; a.a = act.arg; a.line = line; a.col = col; a.s = g.term_name(t);
                res.acts.push_back(a);
                states.push_back(act.arg);
                res.max_depth = std::max(res.max_depth, int(states.size()));
                values.push_back(Val{ sim::error_leaf_digest(), sim::error_leaf_digest(), "<error>" });
                recovering = false;
                Act l; l.k = Act::LEAVE_RECOVERY; l.line = line; l.col = col; res.acts.push_back(l);
                consuming = true;
                Act c; c.k = Act::ENTER_CONSUME; c.line = line; c.col = col; res.acts.push_back(c);
                if (res.rec_pops_min < 0 || pops_this_recovery < res.rec_pops_min) res.rec_pops_min = pops_this_recovery;
                if (pops_this_recovery > res.rec_pops_max) res.rec_pops_max = pops_this_recovery;
                continue;
            }
            std::string lex(bytes + cur.off, size_t(cur.len));
            Act a; a.k = Act::SHIFT; a.a = act.arg; a.line = line; a.col = col; a.s = lex;
            res.acts.push_back(a);
            states.push_back(act.arg);
            res.max_depth = std::max(res.max_depth, int(states.size()));
            Val v;
            const bool valueless = cur.term >= 0 && size_t(cur.term) < g.terms.size() && g.terms[size_t(cur.term)].valueless;
            v.digest = sim::leaf_digest(valueless ? std::string() : lex, uint32_t(cur.line), uint32_t(cur.col));
            v.sdigest = sim::leaf_digest(valueless ? std::string() : lex, 0, 0);
            if (lex.size() < 4096) v.lex = lex;
            res.shifted.push_back(cur);
            if (lex.size() < 4096) v.text = "'" + (valueless ? std::string() : lex) + "'@" + std::to_string(cur.line) + ":" + std::to_string(cur.col);
            values.push_back(std::move(v));
            advance_pos(line, col, bytes + cur.off, cur.len);
            pos = cur.off + cur.len;
            have_term = false;
            continue;
        }

        if (act.k == Action::REDUCE)
        {
            if (recovering) { res.reduce_on_error_token = true; if (pops_this_recovery > 0) res.reduce_after_pop = true; }
            if (act.arg < 0 || size_t(act.arg) >= g.rules.size()) { res.step_limit = true; break; }
            const RuleSpec& r = g.rules[size_t(act.arg)];
            size_t k = r.rhs.size();
            if (k > values.size() || k >= states.size()) { res.step_limit = true; break; }
            Act a; a.k = Act::REDUCE; a.a = act.arg; a.line = line; a.col = col;
            res.acts.push_back(a);
            Val v;
            if (r.ftor == F_DEFAULT)
            {
                if (k == 0) { v.digest = v.sdigest = sim::empty_default_digest(); v.text = "()"; }
                else v = values[values.size() - 1];   // unit rule: the value passes through
            }
            else if (r.ftor == F_ELEMENT)
            {
                if (r.eidx < 1 || size_t(r.eidx) > k) { res.step_limit = true; break; }
                v = values[values.size() - k + size_t(r.eidx) - 1];
            }
            else if (r.ftor == F_TOKREF)
            {
                if (k != 1) { res.step_limit = true; break; }
                const Val& tk = values[values.size() - 1];
                v.digest = v.sdigest = sim::tokref_digest(tk.lex);
                v.text = "(ref '" + tk.lex + "')";
                res.reds.push_back(RefResult::Red{ act.arg, v.digest, v.sdigest, 0 });
            }
            else if (r.ftor == F_CREATE_LIST)
            {
                v.digest = v.sdigest = sim::list_digest_begin(); v.text = "[";
            }
            else if (r.ftor == F_EMPLACE_BACK)
            {
                if (k < 2) { res.step_limit = true; break; }
                v = values[values.size() - k];
                const Val& e = values[values.size() - k + 1];
                v.digest = sim::list_digest_add(v.digest, e.digest);
                v.sdigest = sim::list_digest_add(v.sdigest, e.sdigest);
                if (v.text.size() + e.text.size() < 4096) v.text += " " + e.text;
            }
            else
            {
                uint64_t h = sim::node_digest_begin(act.arg), hs = h;
                v.text = "(r" + std::to_string(act.arg);
                for (size_t i = values.size() - k; i < values.size(); ++i)
                {
                    h = sim::node_digest_add(h, values[i].digest);
                    hs = sim::node_digest_add(hs, values[i].sdigest);
                    if (v.text.size() + values[i].text.size() < 4096) v.text += " " + values[i].text;
                    else if (v.text.size() < 4096 + 8) v.text += " ...";
                }
                h = sim::node_digest_end(h, int(k));
                hs = sim::node_digest_end(hs, int(k));
                v.text += ")";
                v.digest = h;
                v.sdigest = hs;
                res.reds.push_back(RefResult::Red{ act.arg, h, hs, r.ftor == F_CTX ? 1 : 0 });
            }
            for (size_t i = 0; i < k; ++i) { states.pop_back(); values.pop_back(); }
            if (states.empty()) { res.step_limit = true; break; }
            int gt = tb.go[size_t(states.back())][size_t(r.lhs)];
            if (gt < 0) { res.step_limit = true; break; }   // not a usable table (reported as "unjudged")
            Act go; go.k = Act::GOTO; go.a = gt; go.line = line; go.col = col;
            res.acts.push_back(go);
            states.push_back(gt);
            res.max_depth = std::max(res.max_depth, int(states.size()));
            values.push_back(std::move(v));
            continue;
        }

        // ACCEPT
        {
            Act a; a.k = Act::SUCCESS; a.line = line; a.col = col;
            res.acts.push_back(a);
            res.accepted = true;
            res.digest = values.front().digest;
            res.sdigest = values.front().sdigest;
            res.text = values.front().text;
            break;
        }
    }
    return res;
}

}  // namespace ref
