// The writer seam without any ctpg dependency (usable from the harness TUs).
#pragma once
#include "rt.hpp"
#include <ostream>
#include <streambuf>

namespace sim
{

class SimStreamBuf : public std::streambuf
{
protected:
    std::streamsize xsputn(const char* s, std::streamsize n) override
    {
        return std::streamsize(simrt::wr(s, int64_t(n)));
    }
    int_type overflow(int_type ch) override
    {
        if (traits_type::eq_int_type(ch, traits_type::eof())) return traits_type::not_eof(ch);
        char c = traits_type::to_char_type(ch);
        return simrt::wr(&c, 1) == 1 ? ch : traits_type::eof();
    }
};

// a caller's long-lived log stream: one object used for several calls
struct SharedSimStream
{
    SimStreamBuf sb;
    std::ostream os;
    SharedSimStream() : os(&sb) {}
};

}  // namespace sim
