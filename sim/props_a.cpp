// Properties whose case is one run judged against the reference model: C06 C08 C09 C10 C18.
#include "props_common.hpp"

#include <algorithm>

namespace sim
{

static const ExecFlags kFlags{};

static std::string op_brief(const OpResult& o)
{
    return o.op.parser + " input='" + printable(o.rend.bytes, 120) + "' ws=" + (o.op.skip_ws ? "1" : "0") + " nl=" + (o.op.skip_nl ? "1" : "0") +
        " buf=" + std::to_string(o.rend.effective_buffer) + " stream=" + std::to_string(o.op.stream) + (o.op.verbose ? " verbose" : "");
}

// ===============================================================================================
// C06 -- any byte string is memory-safe and terminates (DESIGN 6.1)
static Plan gen_c06(uint64_t seed, int64_t index, bool thorough)
{
    Rng rng(hash_seed(seed, "C06", index));
    std::vector<std::string> pk = keys_for({ "G1", "G2", "G3", "G4", "G5", "G6", "G7", "G8", "G9", "G10", "G11", "G12", "G13", "G14", "G15", "G16", "G17", "G18", "G19", "G20", "G21", "G22", "G23", "G24", "G25", "G27", "G28", "T1" });
    std::vector<std::string> rk = regex_keys();
    PlanOp op;
    std::string mode;
    OpShape sh;
    sh.buffers = { BUF_SIM, BUF_SIM, BUF_STRING, BUF_VIEW, BUF_VIEW, BUF_CSTRING, BUF_CSTRING };
    sh.streams = { STR_NONE, STR_SIM, STR_OSS };
    sh.p_verbose = 25;
    sh.allow_heap = true;
    if (!rk.empty() && rng.chance(1, 6))
    {
        // standalone regex matcher
        std::string key = rng.pick(rk);
        op.parser = key; op.api = API_MATCH; op.use_raw = true;
        op.buffer = rng.pick(sh.buffers); op.stream = rng.pick(sh.streams); op.verbose = rng.chance(1, 4);
        const std::string* pat = regex_pattern(key);
        auto re = ref::parse_regex(*pat);
        uint64_t k = rng.below(100);
        if (k < 40) { op.raw = sample_regex(*re, rng, thorough ? 40 : 6); mode = "regex_match"; }
        else if (k < 70) { op.raw = sample_regex(*re, rng, 4); add_byte_faults(op, rng, rng.range(1, 3), nullptr); mode = "regex_faulty"; }
        else if (k < 80) { op.raw = ""; mode = "regex_empty"; }
        else { op.raw = byte_soup(rng, nullptr, rng.range(1, 40)); mode = "regex_soup"; }
        if (rng.chance(1, 12)) { op.api = API_MATCHER_DEBUG; op.raw.clear(); op.faults.clear(); op.stream = rng.chance(1, 2) ? STR_SIM : STR_OSS; mode = "regex_debug_parse"; }
        return single_op_plan("C06", seed, index, mode, op);
    }
    std::string key = rng.pick(pk);
    const ref::Model* m = model_for(grammar_of(key));
    if (rng.chance(1, 500))
    {
        // a message at a seven-digit line AND a seven-digit column (2 MB of text): the longest position a formatting
        // routine of the library has to print
        mode = "message_at_far_position";
        sh.budget = 6; sh.buffers = { BUF_STRING, BUF_VIEW }; sh.streams = { STR_OSS, STR_SIM }; sh.p_verbose = 0; sh.p_skip_ws_off = 0; sh.p_skip_nl_off = 0;
        op = make_sentence_op(rng, key, sh);
        std::string far = std::string(size_t(1000000 + rng.below(900)), '\n') + std::string(size_t(1000000 + rng.below(900)), ' ');
        if (!op.toks.empty()) op.toks.back().ws = far; else op.tail = far;
        op.tail += rng.chance(1, 2) ? std::string(" \x01") : std::string(" ") + (op.toks.empty() ? std::string("?") : op.toks.back().lex);
        return single_op_plan("C06", seed, index, mode, op);
    }
    uint64_t k = rng.below(100);
    if (k < 12)
    {
        mode = "clean";
        sh.budget = 30;
        op = make_sentence_op(rng, key, sh);
    }
    else if (k < 50)
    {
        mode = "byte_faults";
        sh.budget = 30;
        op = make_sentence_op(rng, key, sh);
        add_byte_faults(op, rng, rng.range(1, 4), m);
    }
    else if (k < 65)
    {
        mode = "token_and_byte_faults";
        sh.budget = 24;
        op = make_sentence_op(rng, key, sh);
        add_token_faults(op, rng, rng.range(1, 3), *m);
        if (rng.chance(1, 2)) add_byte_faults(op, rng, rng.range(1, 2), m);
    }
    else if (k < 80)
    {
        mode = "soup";
        sh.budget = 0;
        op = make_sentence_op(rng, key, sh);
        op.toks.clear(); op.tail.clear(); op.use_raw = true;
        op.raw = byte_soup(rng, m, rng.range(0, 62));
    }
    else if (k < 86)
    {
        mode = "whitespace_only";
        sh.budget = 0;
        op = make_sentence_op(rng, key, sh);
        op.toks.clear(); op.use_raw = true;
        int n = rng.range(0, 30);
        for (int i = 0; i < n; ++i) op.raw += " \t\n\r\x0b\x0c"[rng.below(6)];
    }
    else if (k < 88)
    {
        // fixed-capacity stacks (cstring_buffer): openers that each push a state plus an empty-rule reduction
        mode = "fixed_stack_pressure";
        static const std::vector<std::pair<const char*, const char*>> openers = { { "G3", "x" }, { "G5", "{" }, { "G7", "{" }, { "G11", "(" }, { "G3", "zx" }, { "G16", "x" }, { "G16", "xy" } };
        const auto& oc = openers[size_t(rng.below(openers.size()))];
        std::vector<std::string> fk = keys_for({ oc.first });
        key = rng.pick(fk);
        m = model_for(grammar_of(key));
        sh.budget = 0; sh.p_skip_ws_off = 0;
        op = make_sentence_op(rng, key, sh);
        op.toks.clear(); op.tail.clear(); op.use_raw = true; op.buffer = BUF_CSTRING;
        int N = CSTRING_SIZES[rng.below(4)];
        int fill = N - 1 - int(rng.below(3));
        while (int(op.raw.size()) + int(std::string(oc.second).size()) <= fill) op.raw += oc.second;
        if (rng.chance(1, 3) && !op.raw.empty()) op.raw[op.raw.size() - 1] = "})];"[rng.below(4)];
    }
    else if (k < 89)
    {
        // one very long token: lengths around the 16-bit boundary and beyond
        mode = "long_lexeme";
        sh.budget = 6;
        sh.buffers = { BUF_SIM, BUF_STRING, BUF_VIEW };
        sh.p_verbose = 0;
        std::vector<std::string> lk = keys_for({ "G1", "G2", "G4", "G5", "G6", "G7", "G9" });
        key = rng.pick(lk);
        m = model_for(grammar_of(key));
        op = make_sentence_op(rng, key, sh);
        static const std::vector<int> lens = { 65535, 65536, 65537, 70000, 131072, 131077 };
        bool ok = false;
        for (int tries = 0; tries < 6 && !ok; ++tries)
        {
            op = make_sentence_op(rng, key, sh);
            ok = stretch_one_lexeme(op, rng, *m, size_t(rng.pick(lens)));
        }
        if (!ok) mode = "clean";
    }
    else if (k < 93)
    {
        // stacks crossing their reserved capacity (1024 entries, then 2048, ...) at every possible phase
        mode = "deep";
        sh.budget = 4;
        sh.buffers = { BUF_SIM, BUF_STRING, BUF_VIEW };
        sh.p_verbose = 0; sh.p_skip_ws_off = 0;
        std::vector<std::string> dk = keys_for({ "G1", "G2", "G3", "G4", "G5", "G6", "G7", "G11" });
        key = rng.pick(dk);
        m = model_for(grammar_of(key));
        op = make_sentence_op(rng, key, sh);
        int target = thorough ? int(rng.pick(std::vector<int>{ 1024, 1024, 2048, 4096, 65536 })) : int(rng.pick(std::vector<int>{ 1024, 1024, 1024, 2048 }));
        if (rng.chance(1, thorough ? 12 : 30)) target = 65536 + 24;      // indices beyond 16 bits
        if (!make_deep_op(op, rng, key, target)) mode = "clean";
    }
    else
    {
        mode = "grow";
        sh.budget = thorough ? int(rng.pick(std::vector<int>{ 500, 2000, 10000 })) : int(rng.pick(std::vector<int>{ 200, 600, 1500 }));
        sh.buffers = { BUF_SIM, BUF_STRING, BUF_VIEW };
        sh.p_verbose = 5;
        op = make_sentence_op(rng, key, sh);
        // force the size: the generator draws a budget in [0, budget]; redraw until reasonably long
        for (int tries = 0; tries < 4 && int(op.toks.size()) < sh.budget / 4; ++tries) op = make_sentence_op(rng, key, sh);
        if (rng.chance(1, 3)) add_byte_faults(op, rng, 1, m);
    }
    if (m && m->g.custom_lexer && rng.chance(1, 5)) op.lex_fail_call = int64_t(rng.below(op.toks.size() + 1));
    return single_op_plan("C06", seed, index, mode, op);
}

static std::vector<Violation> case_c06(const Plan& p, CaseCtx& cx)
{
    std::vector<Violation> vs;
    RunResult rr = exec_plan(p, kFlags);
    const OpResult& o = rr.tasks[0][0];
    account(cx, p, rr, o.rend.faults_fired > 0 || p.mode == "soup" || p.mode == "grow" || p.mode == "deep" || p.mode == "fixed_stack_pressure" || p.mode == "long_lexeme" || p.mode == "regex_soup" || p.mode == "whitespace_only" || p.mode == "regex_empty");
    if (cx.st)
    {
        cx.st->add("mode." + p.mode);
        if (o.out.has_value) cx.st->add("outcome.value"); else cx.st->add("outcome.no_value");
    }
    std::string brief = op_brief(o);
    if (o.rec.oob_read) vs.push_back(make_violation("C06", "oob_read", "dereference outside [0,len): " + std::to_string(o.rec.oob_read) + "x; " + brief, p));
    if (o.rec.oob_iter) vs.push_back(make_violation("C06", "oob_iter", "iterator moved outside [0,len]: " + std::to_string(o.rec.oob_iter) + "x; " + brief, p));
    if (o.rec.oob_view) vs.push_back(make_violation("C06", "oob_view", "get_view outside the buffer; " + brief, p));
    if (o.rec.use_dead) vs.push_back(make_violation("C06", "dead_object_read", "an object was read after the end of its lifetime (" + std::to_string(o.rec.use_dead) + "x): undefined behaviour; " + brief, p));
    if (o.rec.bounds_bad) vs.push_back(make_violation("C06", "stack_bounds", "a fixed-capacity stack was overrun or underrun (cvector invariant); " + brief, p));
    if (o.out.exc == 2 || o.rec.budget_hit) vs.push_back(make_violation("C06", "no_termination", "step/read budget exhausted; " + brief, p));
    else if (o.model && o.op.api != API_MATCH && o.op.api != API_MATCHER_DEBUG)
    {
        ref::RefResult r = ref_for(o);
        int64_t bound = 64 + 16 * r.steps;
        if (o.rec.steps > bound)
            vs.push_back(make_violation("C06", "step_budget", "driver steps " + std::to_string(o.rec.steps) + " > 64+16*" + std::to_string(r.steps) + "; " + brief, p));
        if (cx.st)
        {
            if (r.syntax_errors) cx.st->add("probe.syntax_error_path");
            if (r.lexical_error) cx.st->add("probe.lexical_error_path");
            if (r.discarded_terms) cx.st->add("probe.recovery_discard_loop");
            if (r.max_depth > 100) cx.st->add("probe.deep_stack_over_100");
            if (r.max_depth > 1024) cx.st->add("probe.stack_growth_past_initial_capacity");
            if (o.rend.effective_buffer == BUF_CSTRING)
            {
                int empties = 0; for (const ref::RuleSpec& rs : o.model->g.rules) if (rs.rhs.empty()) ++empties;
                int64_t cap = int64_t(o.rend.bytes.size()) + 1 + empties + 1;
                if (r.max_depth > cap) cx.st->add("probe.fixed_stack_capacity_exceeded");
                if (r.max_depth > cap && o.out.exc == 3) cx.st->add("probe.capacity_overrun_reported_by_exception");
            }
        }
    }
    return vs;
}

// ===============================================================================================
// shared comparison of one op against the reference
struct Cmp
{
    ref::RefResult r;
    bool judged = false;
};

static std::string first_line(const std::string& s)
{
    size_t e = s.find('\n');
    return e == std::string::npos ? s : s.substr(0, e + 1);
}

// ===============================================================================================
// C09 -- failures are reported once, at the right place, never silently (DESIGN 6.3)
static Plan gen_c09(uint64_t seed, int64_t index, bool thorough)
{
    Rng rng(hash_seed(seed, "C09", index));
    std::vector<std::string> pk = keys_for({ "G2", "G3", "G4", "G5", "G8", "G9", "G10", "G10", "G12", "G15", "G15", "G17", "G17", "G19", "G19", "G20", "G20", "G22", "G22", "G23", "G23", "G24", "G24", "G25", "G26", "G28", "G28" });
    std::string key = rng.pick(pk);
    { std::vector<std::string> xk = random_grammar_keys(); if (!xk.empty() && rng.chance(1, 2)) key = rng.pick(xk); }   // thorough tier: seeded random grammars
    const ref::Model* m = model_for(grammar_of(key));
    OpShape sh;
    sh.allow_heap = true;     // run-time constructed instances (built by a factory whose term objects are gone)
    sh.budget = thorough ? 48 : 24;
    sh.ws_rich = rng.chance(1, 3);
    sh.buffers = { BUF_SIM, BUF_SIM, BUF_SIM, BUF_STRING, BUF_VIEW };
    sh.streams = { STR_SIM, STR_SIM, STR_SIM, STR_OSS };
    PlanOp op = make_sentence_op(rng, key, sh);
    std::string mode;
    uint64_t k = rng.below(100);
    if (k < 30) mode = "fault_free";
    else if (k < 65) { mode = "token_faults"; add_token_faults(op, rng, rng.range(1, 3), *m); }
    else if (k < 90) { mode = "byte_faults"; add_byte_faults(op, rng, rng.range(1, 3), m); }
    else { mode = "mixed_faults"; add_token_faults(op, rng, 1, *m); add_byte_faults(op, rng, rng.range(1, 2), m); }
    if (rng.chance(1, 150))
    {
        // the language does not bound the length of a term: one lexeme around and beyond 64 KiB
        static const std::vector<int> lens = { 65535, 65536, 65537, 70000, 131072 };
        OpShape s2 = sh; s2.budget = 8; s2.buffers = { BUF_SIM, BUF_STRING, BUF_VIEW };
        for (int tries = 0; tries < 6; ++tries)
        {
            PlanOp o2 = make_sentence_op(rng, key, s2);
            if (stretch_one_lexeme(o2, rng, *m, size_t(rng.pick(lens))))
            {
                op = o2; mode = "long_lexeme";
                if (rng.chance(1, 2)) add_token_faults(op, rng, 1, *m);
                break;
            }
        }
    }
    return single_op_plan("C09", seed, index, mode, op);
}

static void c09_clauses(const Plan& p, const OpResult& o, const ref::RefResult& r, std::vector<Violation>& vs)
{
    std::string brief = op_brief(o);
    std::string written = o.op.stream == STR_OSS ? o.out.oss_text : o.rec.wrote;
    // (a) empty optional exactly when the input is not in the language
    if (o.out.has_value != r.accepted)
    {
        vs.push_back(make_violation("C09", r.accepted ? "valid_input_rejected" : "invalid_input_accepted",
            std::string("parse returned ") + (o.out.has_value ? "a value" : "no value") + " but the reference " + (r.accepted ? "accepts" : "rejects") + "; " + brief, p));
        return;
    }
    if (r.accepted)
    {
        // (b) a successful non-verbose parse writes nothing
        if (!written.empty())
            vs.push_back(make_violation("C09", "output_on_success", "wrote '" + printable(written) + "' on success; " + brief, p));
        return;
    }
    // (c) exactly one message, the right one
    const std::string& want = r.messages.empty() ? std::string() : r.messages[0];
    if (written != want)
    {
        std::string cls = "wrong_message";
        if (written.empty()) cls = "silent_failure";
        else if (written.size() > want.size() && written.compare(0, want.size(), want) == 0) cls = "reported_more_than_once";
        else if (first_line(written) != written) cls = "reported_more_than_once";
        else
        {
            // same text apart from the [l:c] prefix? then it is a position error
            size_t a = written.find(']'), b = want.find(']');
            if (a != std::string::npos && b != std::string::npos && written.substr(a) == want.substr(b)) cls = "wrong_position";
        }
        vs.push_back(make_violation("C09", cls, "wrote '" + printable(written) + "' expected '" + printable(want) + "'; " + brief, p));
        return;
    }
    if (o.op.stream == STR_SIM)
    {
        // (e) nothing is reduced after the report
        if (o.rec.reds_at_first_wr >= 0 && int64_t(o.rec.reds.size()) != o.rec.reds_at_first_wr)
            vs.push_back(make_violation("C09", "functor_after_report", "a functor ran after the failure was reported; " + brief, p));
        // (d) reported before any later input is examined
        if (o.rend.effective_buffer == BUF_SIM && r.read_limit_at_first_message >= 0 && o.rec.maxrd_at_first_wr > r.read_limit_at_first_message)
            vs.push_back(make_violation("C09", "examined_later_input",
                "offset " + std::to_string(o.rec.maxrd_at_first_wr) + " had been read when the message was written; delimiting the terms up to the offending one needs at most offset " +
                std::to_string(r.read_limit_at_first_message) + "; " + brief, p));
    }
}

static std::vector<Violation> case_c09(const Plan& p, CaseCtx& cx)
{
    std::vector<Violation> vs;
    RunResult rr = exec_plan(p, kFlags);
    const OpResult& o = rr.tasks[0][0];
    account(cx, p, rr, o.rend.faults_fired > 0);
    if (cx.st) cx.st->add("mode." + p.mode);
    if (o.out.exc == 5)
    {
        vs.push_back(make_violation("C09", "exception_instead_of_result", "std::bad_variant_access escaped from the call: neither a value nor an empty optional with its message; " + op_brief(o), p));
        return vs;
    }
    if (o.out.exc != 0) { if (cx.st) cx.st->add("unjudged.exception"); return vs; }
    ref::RefResult r = ref_for(o, REF_CANONICAL);   // "cannot continue any valid prefix": canonical LR(1) over the term patterns is the statement
    if (r.step_limit) return vs;
    if (cx.st)
    {
        if (r.accepted) cx.st->add("outcome.accepted");
        else if (r.lexical_error) cx.st->add("outcome.unexpected_character");
        else cx.st->add("outcome.syntax_error");
        if (!r.accepted && !r.lexical_error && !r.tokens.empty() && r.tokens.back().term == o.model->g.eof_idx() && r.messages.size() == 1 && r.messages[0].find("<eof>") != std::string::npos)
            cx.st->add("probe.error_at_end_of_input");
        if (!r.accepted && r.tokens.size() <= 1) cx.st->add("probe.error_on_first_term");
        if (o.op.stream == STR_SIM && o.rend.effective_buffer == BUF_SIM && !r.accepted) cx.st->add("probe.read_high_water_checked");
    }
    c09_clauses(p, o, r, vs);
    if (vs.empty()) return vs;
    // Known finding F5 (known_findings.json): ctpg's lexer automaton merges a literal term that is listed after a
    // looping pattern into the loop state, so G10's identifier loop continues into the tail of "a-b-c". The outcome is
    // then exactly what the documented driver gives over the parser's OWN automaton. Classified, never hidden: the
    // class keeps its name behind the prefix, and anything this does not explain stays a plain violation.
    // Known finding F12, same root cause, other shapes (G26): a concatenation whose first part is a loop over a superset
    // of the second part recognises too little ([0-9]*[05] does not match "5"), and a loop followed by its own symbol
    // recognises too much (a+a matches "a"). Same classification rule: explained exactly by the parser's own automaton.
    const std::string gname = grammar_of(o.op.parser);
    if ((gname == "G10" || gname == "G26") && o.rmodel && o.rmodel->dfa)
    {
        bool shape = gname == "G26";
        for (size_t i = 0; !shape && i + 1 < o.rend.bytes.size(); ++i)
            if (o.rend.bytes[i] >= 'a' && o.rend.bytes[i] <= 'z' && o.rend.bytes[i + 1] == '-') { shape = true; break; }
        if (shape)
        {
            ref::RefResult r2 = ref_for(o, REF_REAL_TABLE);
            std::vector<Violation> v2;
            if (!r2.step_limit) c09_clauses(p, o, r2, v2);
            if (!r2.step_limit && v2.empty())
                for (Violation& v : vs)
                {
                    if (gname == "G10") { v.cls = "known_F5_lexer_merge__" + v.cls; v.detail = "[explained by the parser's own lexer automaton, F5] " + v.detail; }
                    else { v.cls = "known_F12_regex_construction__" + v.cls; v.detail = "[explained by the parser's own lexer automaton, F12] " + v.detail; }
                }
        }
    }
    return vs;
}

// ===============================================================================================
// C10 -- source points are the true line and column (DESIGN 6.4)
static Plan gen_c10(uint64_t seed, int64_t index, bool thorough)
{
    Rng rng(hash_seed(seed, "C10", index));
    std::vector<std::string> pk = keys_for({ "G1", "G2", "G4", "G4", "G5", "G5", "G6", "G6", "G7", "G9", "G9", "G10", "G10", "G11", "G12", "G13", "G14", "G15", "G16", "G17", "G18", "G19", "G20", "G21", "G22", "G23", "G24", "G25", "G27", "G28", "T1" }, false);
    std::string key = rng.pick(pk);
    { std::vector<std::string> xk = random_grammar_keys(); if (!xk.empty() && rng.chance(1, 2)) key = rng.pick(xk); }   // thorough tier: seeded random grammars
    const ref::Model* m = model_for(grammar_of(key));
    OpShape sh;
    sh.allow_heap = true;     // run-time constructed instances (built by a factory whose term objects are gone)
    sh.budget = thorough ? 48 : 24;
    sh.ws_rich = !rng.chance(1, 4);
    sh.p_skip_nl_off = 30;
    sh.p_skip_ws_off = 5;
    sh.buffers = { BUF_SIM, BUF_STRING, BUF_VIEW, BUF_CSTRING };
    sh.streams = { STR_SIM, STR_OSS };
    sh.p_verbose = 12;        // the positions the functors see must not depend on the trace being written (S122: the lexer advanced the parser's source point only when verbose)
    PlanOp op = make_sentence_op(rng, key, sh);
    std::string mode;
    uint64_t k = rng.below(100);
    if (k < 30) mode = "fault_free";
    else if (k < 55)
    {
        mode = "ws_faults";
        int n = rng.range(1, 4);
        static const std::vector<std::string> wsf = { "\n", "\r", "\t", "\r\n", "\n\n\n", " \t\r", "\x0b\x0c", "  \n  ", "\t\t" };
        for (int i = 0; i < n; ++i)
        {
            Fault f; f.kind = "ws"; f.a = int64_t(rng.below(op.toks.size() + 1)); f.s = rng.pick(wsf);
            if (!op.skip_ws) f.s = "";
            op.faults.push_back(f);
        }
    }
    else if (k < 80) { mode = "token_faults"; add_token_faults(op, rng, rng.range(1, 3), *m); }
    else { mode = "byte_faults"; add_byte_faults(op, rng, rng.range(1, 2), m); }
    if (rng.chance(1, 120) && !op.toks.empty() && op.skip_ws)
    {
        // positions beyond 16 bits: tens of thousands of lines, or a column past 65535 on one line
        mode = "far_positions";
        op.buffer = rng.chance(1, 2) ? BUF_STRING : BUF_VIEW;
        op.faults.clear();
        uint64_t how = rng.below(3);
        size_t at = size_t(rng.below(op.toks.size()));
        if (rng.chance(1, 4) && op.skip_nl)
        {
            // seven-digit line AND seven-digit column (a 2 MB text): the longest "[line:column]" prefixes a message can carry
            how = 3;
            op.buffer = BUF_STRING; op.stream = rng.chance(1, 2) ? STR_OSS : STR_SIM;
            at = op.toks.size() - 1;
            op.toks[at].ws = std::string(size_t(1000000 + rng.below(900)), '\n') + std::string(size_t(1000000 + rng.below(900)), ' ');
        }
        if (how == 3) { }
        else if (how == 0) { if (op.skip_nl) op.toks[at].ws.assign(size_t(65530 + rng.below(600)), '\n'); else op.toks[at].ws.assign(size_t(65530 + rng.below(600)), ' '); }
        else if (how == 1) op.toks[at].ws.assign(size_t(65530 + rng.below(600)), ' ');
        else if (!stretch_one_lexeme(op, rng, *m, size_t(65530 + rng.below(600)))) op.toks[at].ws.assign(70000, ' ');
        if (how == 3) { op.faults.clear(); op.tail = rng.chance(1, 2) ? std::string(" \x01") : std::string(" ") + (op.toks.empty() ? std::string("?") : op.toks.back().lex); }      // an error out there, for certain
        else if (rng.chance(1, 2)) add_token_faults(op, rng, 1, *m);      // and an error message out there
    }
    Plan p10 = single_op_plan("C10", seed, index, mode, op);
    if (mode != "far_positions" && rng.chance(1, 10))
    {
        // a caller that logs every call to ONE long-lived std::ostream: an earlier call on the same parser fails on a
        // byte that has no printable form, then the judged call reports at its own positions. Whatever formatting state
        // the earlier message left on the stream must not reach the [line:column] of the later one.
        PlanOp pre = make_sentence_op(rng, key, sh);
        pre.use_raw = true;
        static const std::vector<std::string> bad = { std::string("\x01", 1), std::string("\x7f", 1), std::string("\x80", 1), std::string("\xff", 1), std::string("\x1b", 1), std::string("\x00", 1) };
        pre.raw = rng.pick(bad);
        pre.faults.clear(); pre.verbose = false; pre.stream = STR_SIM; pre.buffer = BUF_STRING; pre.heap = false;
        PlanOp judged = p10.tasks[0].ops[0];
        judged.stream = STR_SIM;
        if (judged.skip_ws && !judged.toks.empty()) { judged.toks[0].ws = std::string(size_t(rng.range(9, 14)), judged.skip_nl && rng.chance(1, 2) ? '\n' : ' ') + judged.toks[0].ws; }
        p10.tasks[0].ops.clear();
        p10.tasks[0].ops.push_back(pre);
        p10.tasks[0].ops.push_back(judged);
        p10.share_streams = true;
        p10.mode = mode + "+shared_stream_history";
    }
    return p10;
}

static bool parse_prefix(const std::string& line, int& l, int& c)
{
    if (line.empty() || line[0] != '[') return false;
    size_t colon = line.find(':'), rb = line.find(']');
    if (colon == std::string::npos || rb == std::string::npos || colon > rb) return false;
    l = std::atoi(line.substr(1, colon - 1).c_str());
    c = std::atoi(line.substr(colon + 1, rb - colon - 1).c_str());
    return true;
}

static std::vector<Violation> case_c10(const Plan& p, CaseCtx& cx)
{
    std::vector<Violation> vs;
    RunResult rr = exec_plan(p, kFlags);
    const OpResult& o = rr.tasks[0].back();      // (a shared-stream history puts an earlier, failing call in front)
    account(cx, p, rr, o.rend.faults_fired > 0);
    if (cx.st) cx.st->add("mode." + p.mode);
    if (cx.st && rr.tasks[0].size() > 1) cx.st->add("probe.judged_call_logs_to_a_stream_used_by_an_earlier_failing_call");
    if (o.out.exc != 0) { if (cx.st) cx.st->add("unjudged.exception"); return vs; }
    ref::RefResult r = ref_for(o);
    if (r.step_limit) return vs;
    std::string brief = op_brief(o);
    if (cx.st)
    {
        bool multi = false; for (const ref::Token& t : r.shifted) if (t.line > 1) multi = true;
        if (multi) cx.st->add("probe.term_beyond_first_line");
        for (const ref::Token& t : r.shifted)
        {
            bool nl_in = false; for (int64_t i = 0; i < t.len; ++i) if (o.rend.bytes[size_t(t.off + i)] == '\n') nl_in = true;
            if (nl_in) { cx.st->add("probe.multi_line_lexeme"); break; }
        }
        if (r.discarded_terms) cx.st->add("probe.position_after_recovery");
        if (o.rend.bytes.find('\r') != std::string::npos) cx.st->add("probe.carriage_return_in_input");
        if (o.rend.bytes.find('\t') != std::string::npos) cx.st->add("probe.tab_in_input");
        if (!o.op.skip_nl) cx.st->add("probe.skip_newline_off");
    }
    // every functor call: if the structure agrees with the reference, so must the source points it saw
    size_t n = std::min(o.rec.reds.size(), r.reds.size());
    size_t judged = 0;
    for (size_t i = 0; i < n; ++i)
    {
        if (o.rec.reds[i].rule != r.reds[i].rule || o.rec.reds[i].sdigest != r.reds[i].sdigest) break;   // not a position question
        ++judged;
        if (o.rec.reds[i].digest != r.reds[i].digest)
        {
            vs.push_back(make_violation("C10", "term_source_point",
                "functor call #" + std::to_string(i) + " (rule " + std::to_string(r.reds[i].rule) + ") received a term value whose source point differs from the true line/column; result text: " +
                printable(o.out.text, 300) + " expected: " + printable(r.text, 300) + "; " + brief, p));
            return vs;
        }
    }
    if (cx.st) { cx.st->add("functor_calls_judged", int64_t(judged)); if (judged < n) cx.st->add("unjudged.structure_differs"); }
    // positions in error messages (a verbose call interleaves them with the trace, which is C16's to judge: only the
    // source points handed to the functors are judged for such a call)
    if (o.op.verbose) { if (cx.st) cx.st->add("probe.verbose_call_term_positions_judged"); return vs; }
    std::string written = o.op.stream == STR_OSS ? o.out.oss_text : o.rec.wrote;
    std::vector<std::string> lines;
    {
        // split on the message boundaries the reference expects; an "Unexpected character" line may carry a raw '\n'
        size_t pos = 0;
        for (const std::string& w : r.messages)
        {
            if (pos + w.size() > written.size()) break;
            lines.push_back(written.substr(pos, w.size()));
            pos += w.size();
        }
    }
    for (size_t i = 0; i < lines.size() && i < r.messages.size(); ++i)
    {
        int l1, c1, l2, c2;
        if (!parse_prefix(r.messages[i], l2, c2)) break;
        if (!parse_prefix(lines[i], l1, c1) || lines[i].substr(0, lines[i].find(']') + 1) != r.messages[i].substr(0, r.messages[i].find(']') + 1))
        {
            // the prefix is not even of the form [line:column], or not this one: if what follows " PARSE: " is the expected
            // message, the message is the right one and only its position prefix is wrong (truncated, garbled, another base)
            if (i == 0)
            {
                size_t m1 = written.find(" PARSE: "), m2 = r.messages[0].find(" PARSE: ");
                if (m1 != std::string::npos && m2 != std::string::npos && written.compare(m1, r.messages[0].size() - m2, r.messages[0], m2, std::string::npos) == 0 &&
                    written.substr(0, m1) != r.messages[0].substr(0, m2))
                {
                    vs.push_back(make_violation("C10", "message_position",
                        "message #0 is prefixed '" + printable(written.substr(0, m1), 60) + "', the offending term is at " + r.messages[0].substr(0, m2) + ": '" + printable(written.substr(0, std::min<size_t>(written.size(), 120))) + "'; " + brief, p));
                    return vs;
                }
            }
            if (!parse_prefix(lines[i], l1, c1)) break;
        }
        size_t a = lines[i].find(']'), b = r.messages[i].find(']');
        if (lines[i].substr(a) != r.messages[i].substr(b)) break;    // a different message: not a position question
        if (l1 != l2 || c1 != c2)
        {
            vs.push_back(make_violation("C10", "message_position",
                "message #" + std::to_string(i) + " carries [" + std::to_string(l1) + ":" + std::to_string(c1) + "], the offending term is at [" + std::to_string(l2) + ":" + std::to_string(c2) + "]: '" +
                printable(lines[i]) + "'; " + brief, p));
            return vs;
        }
        if (cx.st) cx.st->add("message_positions_judged");
    }
    return vs;
}

// ===============================================================================================
// C08 -- error recovery follows the documented algorithm (DESIGN 6.2)
static Plan gen_c08(uint64_t seed, int64_t index, bool thorough)
{
    Rng rng(hash_seed(seed, "C08", index));
    std::vector<std::string> pk = keys_for({ "G1", "G1", "G6", "G7", "G7", "G11", "G11", "G13", "G13", "G14", "G15", "G16", "G17", "G18", "G19", "G20", "G21", "G22", "G23", "G24", "G25", "G27", "G28", "T1" });
    std::string key = rng.pick(pk);
    const ref::Model* m = model_for(grammar_of(key));
    OpShape sh;
    sh.allow_heap = true;     // run-time constructed instances (built by a factory whose term objects are gone)
    sh.budget = thorough ? 40 : 20;
    sh.p_skip_ws_off = 3; sh.p_skip_nl_off = 5;
    sh.buffers = { BUF_SIM, BUF_STRING, BUF_VIEW, BUF_CSTRING };
    sh.streams = { STR_SIM, STR_SIM, STR_NONE, STR_OSS };
    sh.p_verbose = 15;
    PlanOp op = make_sentence_op(rng, key, sh);
    std::string mode;
    uint64_t k = rng.below(100);
    if (k < 12) mode = "fault_free";
    else if (k < 45) { mode = "one_fault"; add_token_faults(op, rng, 1, *m); }
    else if (k < 80) { mode = "two_or_three_faults"; add_token_faults(op, rng, rng.range(2, 3), *m); }
    else { mode = "four_faults"; add_token_faults(op, rng, 4, *m); }
    if (rng.chance(1, 25))
    {
        // a cstring_buffer literal in which EVERY character is a term (G16: right recursion, no empty rule): each one keeps
        // a state on the fixed-capacity stacks, and a syntax error at the very end shifts the error symbol on top of all of
        // them - the last slot of a stack sized N + EmptyRulesCount + 1 (S41)
        std::vector<std::string> fk = keys_for({ "G16" });
        if (!fk.empty())
        {
            key = rng.pick(fk);
            op = make_sentence_op(rng, key, sh);
            op.buffer = BUF_CSTRING; op.heap = false; op.faults.clear(); op.tail.clear(); op.skip_ws = true; op.skip_nl = true;
            size_t len = size_t(rng.pick(std::vector<int>{ 7, 7, 15, 15, 31, 63 }));
            op.toks.clear();
            for (size_t i = 0; i < len; ++i) { PTok t; t.term = rng.chance(1, 3) ? 2 : 0; t.lex = t.term == 2 ? "y" : "x"; t.ws = ""; op.toks.push_back(t); }
            if (rng.chance(1, 3)) { op.toks.back().term = 1; op.toks.back().lex = ";"; }     // (a complete sentence now and then)
            mode = "every_character_a_term";
        }
    }
    return single_op_plan("C08", seed, index, mode, op);
}

static std::vector<std::string> syntax_error_names(const std::string& text)
{
    std::vector<std::string> r;
    size_t pos = 0;
    const std::string key = "PARSE: Syntax error: Unexpected '";
    while ((pos = text.find(key, pos)) != std::string::npos)
    {
        size_t s = pos + key.size();
        size_t e = text.find("'\n", s);
        if (e == std::string::npos) break;
        r.push_back(text.substr(s, e - s));
        pos = e;
    }
    return r;
}

static bool c08_compare(const Plan& p, const OpResult& o, const ref::RefResult& r, const char* against, std::vector<Violation>& vs)
{
    std::string brief = op_brief(o);
    std::string ag = std::string(" [reference: documented algorithm over ") + against + "]";
    if (o.out.has_value != r.accepted)
    {
        vs.push_back(make_violation("C08", r.accepted ? "recovery_should_succeed" : "recovery_should_fail",
            std::string("parse returned ") + (o.out.has_value ? "a value" : "no value") + ", the documented algorithm " + (r.accepted ? "recovers and accepts" : "fails") +
            " (expected result " + printable(r.text, 200) + ")" + ag + "; " + brief, p));
        return false;
    }
    if (r.accepted && o.out.sdigest != r.sdigest)
    {
        vs.push_back(make_violation("C08", "wrong_values_kept", "result " + printable(o.out.text, 300) + " but the documented algorithm keeps/discards differently: " + printable(r.text, 300) + ag + "; " + brief, p));
        return false;
    }
    // functor calls (including those whose results are discarded later)
    {
        size_t n = std::max(o.rec.reds.size(), r.reds.size());
        for (size_t i = 0; i < n; ++i)
        {
            bool bad = i >= o.rec.reds.size() || i >= r.reds.size() || o.rec.reds[i].rule != r.reds[i].rule || o.rec.reds[i].sdigest != r.reds[i].sdigest;
            if (bad)
            {
                vs.push_back(make_violation("C08", "functor_history_differs",
                    "functor call #" + std::to_string(i) + " differs (real " + (i < o.rec.reds.size() ? "rule " + std::to_string(o.rec.reds[i].rule) : std::string("none")) +
                    ", documented " + (i < r.reds.size() ? "rule " + std::to_string(r.reds[i].rule) : std::string("none")) + ")" + ag + "; " + brief, p));
                return false;
            }
        }
    }
    if (o.op.stream != STR_NONE)
    {
        std::string written = o.op.stream == STR_OSS ? o.out.oss_text : o.rec.wrote;
        std::vector<std::string> got = syntax_error_names(written), want;
        for (const ref::Act& a : r.acts) if (a.k == ref::Act::SYNTAX_ERROR) want.push_back(a.s);
        if (got != want)
        {
            vs.push_back(make_violation("C08", "syntax_errors_differ",
                "reported " + std::to_string(got.size()) + " syntax error(s), documented algorithm reports " + std::to_string(want.size()) + "; output '" + printable(written, 300) + "'" + ag + "; " + brief, p));
            return false;
        }
    }
    return true;
}

// Since fixes F7 and F8 the table the library constructs is, for EVERY fleet grammar, exactly the canonical LR(1)
// table up to state numbering (`simworker --list` prints the comparison). The recovery outcome is therefore ALSO judged
// against the canonical construction for every grammar, so that a table that stops offering the error symbol where the
// grammar says it can be accepted is reported. (Before those fixes G1 and G16 carried spurious lookaheads - by-product
// O1, now F7 - and were judged over the parser's own table only.) G10 is not a recovery grammar.
static bool canonical_recovery_grammar(const std::string& g) { return g != "G10"; }

static std::vector<Violation> case_c08(const Plan& p, CaseCtx& cx)
{
    std::vector<Violation> vs;
    RunResult rr = exec_plan(p, kFlags);
    const OpResult& o = rr.tasks[0][0];
    account(cx, p, rr, o.rend.faults_fired > 0);
    if (cx.st) cx.st->add("mode." + p.mode);
    if (o.out.exc == 2 || o.rec.budget_hit)
    {
        vs.push_back(make_violation("C08", "no_progress_after_faults", "step budget exhausted: recovery did not finish; " + op_brief(o), p));
        return vs;
    }
    if (o.out.exc == 5)
    {
        vs.push_back(make_violation("C08", "value_stack_out_of_step", "std::bad_variant_access escaped from the call: a reduction found a value of the wrong kind where its argument should be (values and states discarded out of step); " + op_brief(o), p));
        return vs;
    }
    if (o.out.exc == 6)
    {
        ref::RefResult rx = ref_for(o);
        if (capacity_exception_unjustified(o, rx))
            vs.push_back(make_violation("C08", "exception_instead_of_recovery", "the call threw '" + o.out.exc_what + "' although the deepest stack of the documented run (" + std::to_string(rx.max_depth) +
                " entries) fits the fixed capacity; " + op_brief(o), p));
        else if (cx.st) cx.st->add("unjudged.fixed_capacity_exceeded");
        return vs;
    }
    if (o.out.exc != 0) { if (cx.st) cx.st->add("unjudged.exception"); return vs; }
    ref::RefResult r = ref_for(o);
    if (r.step_limit) return vs;
    if (r.lexical_error) { if (cx.st) cx.st->add("unjudged.not_lexable"); return vs; }   // the statement is about syntax errors
    std::string brief = op_brief(o);
    if (cx.st)
    {
        Stats& st = *cx.st;
        if (r.syntax_errors == 0) st.add("outcome.no_error");
        if (r.syntax_errors == 1) st.add("outcome.one_error");
        if (r.syntax_errors >= 2) st.add("probe.several_errors_in_one_parse");
        if (r.rec_pops_min == 0) st.add("probe.recovery_with_0_pops");
        if (r.rec_pops_max >= 1) st.add("probe.recovery_with_1_or_more_pops");
        if (r.rec_pops_max >= 3) st.add("probe.recovery_with_3_or_more_pops");
        if (r.rec_fail_stack) st.add("probe.recovery_fails_stack_exhausted");
        if (r.rec_fail_eof) st.add("probe.recovery_fails_eof_while_discarding");
        if (r.reduce_on_error_token) st.add("probe.reduce_on_error_symbol");
        if (r.reduce_after_pop) st.add("probe.reduce_on_error_symbol_after_a_pop");
        if (r.discarded_terms >= 1) st.add("probe.terms_discarded");
        if (r.syntax_errors && r.accepted) st.add("outcome.recovered_and_accepted");
        if (r.syntax_errors && !r.accepted) st.add("outcome.recovery_failed");
        if (r.eof_acted_on_in_consume) st.add("probe.end_of_input_ends_the_discard_phase");
    }
    if (!c08_compare(p, o, r, "the parser's own table", vs)) return vs;
    if (canonical_recovery_grammar(grammar_of(o.op.parser)))
    {
        ref::RefResult rc = ref_for(o, REF_CANONICAL);
        if (!rc.step_limit && !rc.lexical_error)
        {
            if (!c08_compare(p, o, rc, "the canonical LR(1) table of the grammar", vs)) return vs;
            if (cx.st) cx.st->add("judged_against_canonical_table_too");
        }
    }
    // bounded liveness once the faults are behind us
    if (o.rec.steps > 64 + 16 * r.steps)
        vs.push_back(make_violation("C08", "no_progress_after_faults", "driver steps " + std::to_string(o.rec.steps) + " > 64+16*" + std::to_string(r.steps) + "; " + brief, p));
    return vs;
}

// ===============================================================================================
// C18 -- a custom lexer drives the parser under the same contract (DESIGN 6.8)
static Plan gen_c18(uint64_t seed, int64_t index, bool thorough)
{
    Rng rng(hash_seed(seed, "C18", index));
    std::vector<std::string> pk = keys_for({ "G6", "G6", "G27" });
    std::string key = rng.pick(pk);
    const ref::Model* m = model_for(grammar_of(key));
    OpShape sh;
    sh.allow_heap = true;     // run-time constructed instances (built by a factory whose term objects are gone)
    sh.budget = thorough ? 40 : 20;
    sh.ws_rich = rng.chance(1, 2);
    sh.p_skip_ws_off = 15; sh.p_skip_nl_off = 20;
    sh.buffers = { BUF_SIM, BUF_SIM, BUF_STRING, BUF_VIEW, BUF_CSTRING };
    sh.streams = { STR_SIM, STR_SIM, STR_OSS, STR_NONE };
    sh.p_verbose = 25;
    PlanOp op = make_sentence_op(rng, key, sh);
    std::string mode;
    uint64_t k = rng.below(100);
    if (k < 25) mode = "fault_free";
    else if (k < 50) { mode = "lex_fail"; op.lex_fail_call = int64_t(rng.below(op.toks.size() + 1)); }
    else if (k < 80) { mode = "token_faults"; add_token_faults(op, rng, rng.range(1, 3), *m); }
    else if (k < 90) { mode = "byte_faults"; add_byte_faults(op, rng, rng.range(1, 2), m); }
    else { mode = "lex_fail_and_token_faults"; add_token_faults(op, rng, rng.range(1, 2), *m); op.lex_fail_call = int64_t(rng.below(op.toks.size() + 2)); }
    if (rng.chance(1, 150))
    {
        // "arbitrary (index, length) pairs within range": a single answer longer than 64 KiB
        static const std::vector<int> lens = { 65535, 65536, 65537, 70000, 131072 };
        OpShape s2 = sh; s2.budget = 6; s2.buffers = { BUF_SIM, BUF_STRING, BUF_VIEW };
        for (int tries = 0; tries < 6; ++tries)
        {
            PlanOp o2 = make_sentence_op(rng, key, s2);
            o2.verbose = false;
            if (stretch_one_lexeme(o2, rng, *m, size_t(rng.pick(lens)))) { op = o2; mode = "long_answer"; break; }
        }
    }
    return single_op_plan("C18", seed, index, mode, op);
}

static std::vector<Violation> case_c18(const Plan& p, CaseCtx& cx)
{
    std::vector<Violation> vs;
    RunResult rr = exec_plan(p, kFlags);
    const OpResult& o = rr.tasks[0][0];
    account(cx, p, rr, o.rend.faults_fired > 0 || o.rec.lex_fault_fired);
    if (cx.st) cx.st->add("mode." + p.mode);
    if (o.out.exc == 5)
    {
        vs.push_back(make_violation("C18", "exception_instead_of_result", "std::bad_variant_access escaped from the call; " + op_brief(o), p));
        return vs;
    }
    if (o.out.exc != 0) { if (cx.st) cx.st->add("unjudged.exception"); return vs; }
    ref::RefResult r = ref_for(o);
    if (r.step_limit) return vs;
    std::string brief = op_brief(o);
    if (cx.st)
    {
        Stats& st = *cx.st;
        st.add("lexer_calls", int64_t(o.rec.lexes.size()));
        if (r.lexical_error) st.add("probe.lexer_failure_mid_stream");
        if (r.lexical_error && r.lexcalls.size() > 1) st.add("probe.lexer_failure_after_first_term");
        if (r.error_in_consume_lexical) st.add("probe.lexer_failure_inside_discard_phase");
        if (r.discarded_terms) st.add("probe.recovery_through_custom_lexer");
        if (r.accepted) st.add("outcome.accepted"); else st.add("outcome.rejected");
    }
    // one request per needed term, at the right offset
    {
        size_t n = std::max(o.rec.lexes.size(), r.lexcalls.size());
        for (size_t i = 0; i < n; ++i)
        {
            if (i >= o.rec.lexes.size() || i >= r.lexcalls.size() || o.rec.lexes[i].pos != r.lexcalls[i].pos)
            {
                std::string cls = "lexer_asked_at_wrong_offset";
                if (i >= r.lexcalls.size()) cls = "lexer_asked_too_often";
                else if (i >= o.rec.lexes.size()) cls = "lexer_not_asked";
                else if (i > 0 && o.rec.lexes[i].pos == o.rec.lexes[i - 1].pos) cls = "lexer_asked_too_often";
                vs.push_back(make_violation("C18", cls,
                    "lexer request #" + std::to_string(i) + ": real offset " + (i < o.rec.lexes.size() ? std::to_string(o.rec.lexes[i].pos) : std::string("none")) +
                    ", contract offset " + (i < r.lexcalls.size() ? std::to_string(r.lexcalls[i].pos) : std::string("none")) + "; " + brief, p));
                return vs;
            }
        }
    }
    // the range and the source point handed to the peer: [requested offset, end of the buffer) and the true position of that offset
    for (size_t i = 0; i < o.rec.lexes.size() && i < r.lexcalls.size(); ++i)
    {
        const auto& lx = o.rec.lexes[i];
        if (lx.end_pos != int64_t(o.rend.bytes.size()))
        {
            vs.push_back(make_violation("C18", "lexer_given_wrong_end", "lexer request #" + std::to_string(i) + " was given an end iterator at offset " + std::to_string(lx.end_pos) +
                ", the buffer ends at " + std::to_string(o.rend.bytes.size()) + "; " + brief, p));
            return vs;
        }
        if (lx.line != r.lexcalls[i].line || lx.col != r.lexcalls[i].col)
        {
            vs.push_back(make_violation("C18", "lexer_given_wrong_position", "lexer request #" + std::to_string(i) + " at offset " + std::to_string(lx.pos) + " was told [" + std::to_string(lx.line) + ":" + std::to_string(lx.col) +
                "], the offset is at [" + std::to_string(r.lexcalls[i].line) + ":" + std::to_string(r.lexcalls[i].col) + "]; " + brief, p));
            return vs;
        }
    }
    // the options handed to the peer: match_options carries the caller's verbose flag, as it does for the generated lexer
    for (size_t i = 0; i < o.rec.lexes.size(); ++i)
        if ((o.rec.lexes[i].verbose != 0) != o.op.verbose)
        {
            vs.push_back(make_violation("C18", "lexer_options_not_forwarded", "lexer request #" + std::to_string(i) + " received match_options.verbose=" + std::to_string(o.rec.lexes[i].verbose) +
                " while the call was made with verbose=" + (o.op.verbose ? "1" : "0") + "; " + brief, p));
            return vs;
        }
    // the slices handed to the custom terms' functors
    {
        size_t n = std::max(o.rec.termfs.size(), r.shifted.size());
        for (size_t i = 0; i < n; ++i)
        {
            bool bad = i >= o.rec.termfs.size() || i >= r.shifted.size() || o.rec.termfs[i].term != r.shifted[i].term ||
                       o.rec.termfs[i].off != r.shifted[i].off || o.rec.termfs[i].len != r.shifted[i].len;
            if (bad)
            {
                vs.push_back(make_violation("C18", "wrong_slice_or_term",
                    "term functor call #" + std::to_string(i) + ": real " +
                    (i < o.rec.termfs.size() ? "(term " + std::to_string(o.rec.termfs[i].term) + ", off " + std::to_string(o.rec.termfs[i].off) + ", len " + std::to_string(o.rec.termfs[i].len) + ")" : std::string("none")) +
                    ", contract " +
                    (i < r.shifted.size() ? "(term " + std::to_string(r.shifted[i].term) + ", off " + std::to_string(r.shifted[i].off) + ", len " + std::to_string(r.shifted[i].len) + ")" : std::string("none")) + "; " + brief, p));
                return vs;
            }
        }
    }
    if (o.out.has_value != r.accepted)
    {
        vs.push_back(make_violation("C18", "acceptance_differs", std::string("parse returned ") + (o.out.has_value ? "a value" : "no value") + ", contract says " + (r.accepted ? "accept" : "reject") + "; " + brief, p));
        return vs;
    }
    if (r.accepted && o.out.sdigest != r.sdigest)
    {
        vs.push_back(make_violation("C18", "value_differs", "result " + printable(o.out.text, 300) + " expected " + printable(r.text, 300) + "; " + brief, p));
        return vs;
    }
    if (r.accepted && o.out.digest != r.digest)
    {
        vs.push_back(make_violation("C18", "positions_differ", "result " + printable(o.out.text, 300) + " expected " + printable(r.text, 300) + "; " + brief, p));
        return vs;
    }
    if (o.op.stream != STR_NONE && !o.op.verbose)
    {
        std::string written = o.op.stream == STR_OSS ? o.out.oss_text : o.rec.wrote;
        std::string want; for (const std::string& m : r.messages) want += m;
        if (written != want)
        {
            vs.push_back(make_violation("C18", r.lexical_error ? "lexer_failure_not_reported_as_unexpected_character" : "messages_differ",
                "wrote '" + printable(written, 300) + "' expected '" + printable(want, 300) + "'; " + brief, p));
            return vs;
        }
    }
    // "interprets the returned index as the position in terms(...)": the grammar over those terms is the one written
    // in the rules, so the outcome is also judged over the grammar's canonical table (G6's own table IS canonical on the
    // pinned tree); a table built from confused term identities is consistent with itself but not with the grammar
    {
        ref::RefResult rc = ref_for(o, REF_CANONICAL);
        if (!rc.step_limit && (o.out.has_value != rc.accepted || (rc.accepted && o.out.sdigest != rc.sdigest)))
        {
            vs.push_back(make_violation("C18", "terms_not_bound_as_written",
                std::string("parse returned ") + (o.out.has_value ? "a value " + printable(o.out.text, 200) : std::string("no value")) + "; over the grammar as written (canonical table) the answer is " +
                (rc.accepted ? printable(rc.text, 200) : std::string("no value")) + "; " + brief, p));
            return vs;
        }
        if (cx.st) cx.st->add("judged_against_canonical_table_too");
    }
    return vs;
}

// ===============================================================================================
extern const Property kPropsA[] = {
    { "C06", &gen_c06, &case_c06 },
    { "C08", &gen_c08, &case_c08 },
    { "C09", &gen_c09, &case_c09 },
    { "C10", &gen_c10, &case_c10 },
    { "C18", &gen_c18, &case_c18 },
};
extern const int kPropsACount = 5;

}  // namespace sim
