#include "props_common.hpp"

#include <cctype>
#include <cstdlib>
#include <cstring>

namespace sim
{

std::vector<std::string> keys_for(std::initializer_list<const char*> grammars, bool with_pnode, bool with_xnode)
{
    std::vector<std::string> r;
    for (const char* g : grammars)
        for (const FleetEntry& e : fleet())
            if (std::strcmp(e.grammar, g) == 0)
            {
                if (!with_pnode && std::strcmp(e.value, "pnode") == 0) continue;
                if (!with_xnode && std::strcmp(e.value, "xnode") == 0) continue;
                r.push_back(e.key);
            }
    return r;
}

// seeded random grammars of the thorough tier (fleet/randgram.py): present only when the fleet was generated with them
std::vector<std::string> random_grammar_keys()
{
    std::vector<std::string> r;
    for (const FleetEntry& e : fleet()) if (e.grammar[0] == 'X') r.push_back(e.key);
    return r;
}

std::vector<std::string> regex_keys()
{
    std::vector<std::string> r;
    for (const FleetEntry& e : fleet()) if (e.key[0] == 'R') r.push_back(e.key);
    return r;
}

PlanOp make_sentence_op(Rng& rng, const std::string& key, const OpShape& sh)
{
    PlanOp op;
    op.parser = key;
    const ref::Model* m = model_for(grammar_of(key));
    op.skip_ws = !rng.chance(sh.p_skip_ws_off, 100);
    if (m)
        for (const ref::TermSpec& ts : m->g.terms)
            if (ts.kind == ref::T_CHAR && (ts.data == " " || ts.data == "\t")) { op.skip_ws = rng.chance(1, 4); break; }   // whitespace is a term here
    op.skip_nl = !rng.chance(sh.p_skip_nl_off, 100);
    op.verbose = rng.chance(sh.p_verbose, 100);
    op.buffer = rng.pick(sh.buffers);
    op.stream = rng.pick(sh.streams);
    op.heap = sh.allow_heap && rng.chance(1, 4);
    if (m)
    {
        int budget = sh.budget <= 0 ? 0 : int(rng.below(uint64_t(sh.budget) + 1));
        bool dense = rng.chance(sh.p_dense, 100);
        op.toks = gen_sentence(*m, rng, budget, sh.ws_rich, op.skip_ws, op.skip_nl, dense);
        if (op.skip_ws && rng.chance(1, 4))
        {
            static const std::vector<std::string> tails = { " ", "\n", "  \n", "\t", "\r\n" };
            op.tail = rng.pick(tails);
            if (!op.skip_nl) { std::string t; for (char c : op.tail) if (c != '\n') t += c; op.tail = t; }
        }
    }
    return op;
}

static std::string term_start_bytes(const ref::Model* m)
{
    std::string s;
    if (!m || !m->lexer) return "ab01(){};=+*,:\"[]";
    for (size_t t = 0; t < m->g.terms.size(); ++t)
    {
        const ref::TermSpec& ts = m->g.terms[t];
        if (ts.kind == ref::T_CHAR || ts.kind == ref::T_STRING) s += ts.data;
        else
        {
            // a few bytes accepted as first character of the pattern
            const ref::Nfa nfa = ref::build_nfa(*m->lexer->regexes()[t]);
            int cnt = 0;
            for (int c = 33; c < 127 && cnt < 6; ++c)
            {
                char ch = char(c);
                ref::LexResult lr = m->lexer->match(&ch, 1);
                if (lr.term == int(t)) { s += ch; ++cnt; }
            }
        }
    }
    if (s.empty()) s = "x";
    return s;
}

std::string byte_soup(Rng& rng, const ref::Model* m, int n)
{
    std::string starts = term_start_bytes(m);
    std::string s;
    for (int i = 0; i < n; ++i)
    {
        uint64_t k = rng.below(100);
        if (k < 55) s += starts[size_t(rng.below(starts.size()))];
        else if (k < 70) s += " \t\n\r\x0b\x0c"[rng.below(6)];
        else if (k < 78) s += char(0);
        else if (k < 90) s += char(0x80 + rng.below(128));
        else s += char(rng.below(256));
    }
    return s;
}

void add_byte_faults(PlanOp& op, Rng& rng, int n, const ref::Model* m)
{
    std::string starts = term_start_bytes(m);
    for (int i = 0; i < n; ++i)
    {
        Fault f;
        uint64_t k = rng.below(100);
        f.a = int64_t(rng.below(1u << 20));
        if (k < 55)
        {
            f.kind = "flip";
            uint64_t b = rng.below(100);
            if (b < 20) f.b = 0;
            else if (b < 45) f.b = int64_t(0x80 + rng.below(128));
            else if (b < 60) f.b = " \t\n\r\x0b\x0c"[rng.below(6)];
            else if (b < 85) f.b = (unsigned char)starts[size_t(rng.below(starts.size()))];
            else f.b = int64_t(rng.below(256));
        }
        else if (k < 80) f.kind = "trunc";
        else
        {
            f.kind = "ins";
            f.s = byte_soup(rng, m, rng.range(1, 3));
        }
        op.faults.push_back(f);
    }
}

void add_token_faults(PlanOp& op, Rng& rng, int n, const ref::Model& m)
{
    size_t T = m.g.terms.size();
    int64_t anchor = -1;
    for (int i = 0; i < n; ++i)
    {
        Fault f;
        uint64_t k = rng.below(100);
        // placement: first / last / adjacent to the previous fault / anywhere
        uint64_t pl = rng.below(100);
        size_t nt = op.toks.size();
        if (pl < 15) f.a = 0;
        else if (pl < 30) f.a = nt ? int64_t(nt) - 1 : 0;
        else if (pl < 50 && anchor >= 0) f.a = anchor + int64_t(rng.below(2));
        else f.a = int64_t(rng.below(nt + 1));
        anchor = f.a;
        if (k < 30) f.kind = "tok_drop";
        else if (k < 45) f.kind = "tok_dup";
        else if (k < 60) f.kind = "tok_swap";
        else
        {
            f.kind = "tok_ins";
            f.b = int64_t(rng.below(T));
            const ref::TermSpec& ts = m.g.terms[size_t(f.b)];
            if (ts.kind == ref::T_REGEX) f.s = sample_regex(*m.lexer->regexes()[size_t(f.b)], rng, 2);
            else if (ts.kind == ref::T_CUSTOM) f.s = std::string(size_t(rng.range(1, 3)), char(rng.range(33, 126)));
            else f.s = ts.data;
            if (f.s.empty()) f.s = "?";
            if (pl >= 90) f.a = int64_t(nt);   // at end of input
        }
        op.faults.push_back(f);
    }
}

bool stretch_one_lexeme(PlanOp& op, Rng& rng, const ref::Model& m, size_t target_len)
{
    std::vector<size_t> cand;
    for (size_t i = 0; i < op.toks.size(); ++i)
    {
        ref::TermKind k = m.g.terms[size_t(op.toks[i].term)].kind;
        if (k == ref::T_REGEX || k == ref::T_CUSTOM) cand.push_back(i);
    }
    while (!cand.empty())
    {
        size_t ci = size_t(rng.below(cand.size()));
        size_t i = cand[ci];
        cand.erase(cand.begin() + long(ci));
        PTok& t = op.toks[i];
        if (m.g.terms[size_t(t.term)].kind == ref::T_CUSTOM)
        {
            t.lex.assign(target_len, 'k');
            return true;
        }
        // find a position whose byte can be repeated without leaving the term's language
        for (size_t pos = 0; pos < t.lex.size(); ++pos)
        {
            std::string probe = t.lex;
            probe.insert(pos, 12, t.lex[pos]);
            ref::LexResult lr = m.lexer->match(probe.data(), int64_t(probe.size()));
            if (lr.term == t.term && size_t(lr.len) == probe.size())
            {
                if (target_len > t.lex.size()) t.lex.insert(pos, target_len - t.lex.size(), t.lex[pos]);
                return true;
            }
        }
    }
    return false;
}


namespace
{
    struct DeepRecipe { const char* grammar; std::vector<const char*> open, core, close, tail; int per_level; };
    // term display names as in fleet/specs.py
    const std::vector<DeepRecipe>& recipes()
    {
        static const std::vector<DeepRecipe> r = {
            { "G1", { "(" }, { "num" }, { ")" }, { ";" }, 1 },
            { "G2", { "(" }, { "r_[a-z][a-z0-9]*" }, { ")" }, {}, 1 },
            { "G3", { "x" }, {}, {}, {}, 2 },
            { "G4", { "[" }, { "num" }, { "]" }, {}, 1 },
            { "G4", { "{", "str", ":" }, { "num" }, { "}" }, {}, 3 },
            { "G5", { "{" }, {}, { "}" }, {}, 2 },
            { "G6", { "custom_lexeme_t_open" }, { "custom_lexeme_t_item" }, { "custom_lexeme_t_close" }, { "custom_lexeme_t_end" }, 1 },
            { "G7", { "{" }, {}, { "}" }, {}, 2 },
            { "G11", { "(" }, { "x", ";" }, { ")" }, {}, 2 },
            { "G3", { "z", "x" }, {}, {}, {}, 2 },
            { "G14", { "[" }, { "x" }, { "]" }, {}, 2 },
            { "G14", { "(" }, { "x" }, { ")" }, {}, 1 },
        };
        return r;
    }
    int term_by_name(const ref::Model& m, const char* name)
    {
        for (size_t i = 0; i < m.g.terms.size(); ++i) if (m.g.terms[i].name == name) return int(i);
        return -1;
    }
}

bool make_deep_op(PlanOp& op, Rng& rng, const std::string& key, int target)
{
    std::string gname = grammar_of(key);
    const ref::Model* m = model_for(gname);
    if (!m) return false;
    std::vector<const DeepRecipe*> cand;
    for (const DeepRecipe& r : recipes()) if (gname == r.grammar) cand.push_back(&r);
    if (cand.empty()) return false;
    const DeepRecipe& r = *cand[size_t(rng.below(cand.size()))];
    int depth = (target + rng.range(-8, 8)) / r.per_level;
    if (depth < 1) depth = 1;
    for (const auto* lst : { &r.open, &r.core, &r.close, &r.tail })
        for (const char* nm : *lst) if (term_by_name(*m, nm) < 0) return false;      // recipe out of date with the spec
    auto tok = [&](const char* name) -> PTok
    {
        PTok t; t.term = term_by_name(*m, name);
        const ref::TermSpec& ts = m->g.terms[size_t(t.term)];
        if (ts.kind == ref::T_REGEX) t.lex = sample_regex(*m->lexer->regexes()[size_t(t.term)], rng, 1);
        else if (ts.kind == ref::T_CUSTOM) t.lex = "k";
        else t.lex = ts.data;
        if (t.lex.empty()) t.lex = "1";
        return t;
    };
    op.toks.clear(); op.tail.clear(); op.use_raw = false;
    for (int d = 0; d < depth; ++d) for (const char* n : r.open) op.toks.push_back(tok(n));
    for (const char* n : r.core) op.toks.push_back(tok(n));
    for (int d = 0; d < depth; ++d) for (const char* n : r.close) op.toks.push_back(tok(n));
    for (const char* n : r.tail) op.toks.push_back(tok(n));
    // wordy neighbours need a blank (custom lexemes and identifiers)
    for (size_t i = 1; i < op.toks.size(); ++i)
        if (!op.toks[i - 1].lex.empty() && std::isalnum((unsigned char)op.toks[i - 1].lex.back()) && std::isalnum((unsigned char)op.toks[i].lex[0])) op.toks[i].ws = " ";
    op.skip_ws = true; op.skip_nl = true;
    for (const PTok& t : op.toks) if (t.term < 0) return false;
    return true;
}

Plan single_op_plan(const std::string& property, uint64_t seed, int64_t index, const std::string& mode, const PlanOp& op)
{
    Plan p;
    p.seed = seed; p.index = index; p.property = property; p.mode = mode;
    p.tasks.emplace_back();
    p.tasks[0].ops.push_back(op);
    return p;
}

bool capacity_exception_unjustified(const OpResult& o, const ref::RefResult& r)
{
    if (o.out.exc != 6 || o.rend.effective_buffer != BUF_CSTRING || !o.model) return false;
    int empties = 0;
    for (const ref::RuleSpec& rs : o.model->g.rules) if (rs.rhs.empty()) ++empties;
    int64_t cap = int64_t(o.rend.bytes.size()) + 1 + empties + 1;     // cstring_buffer<N>: N = length + 1
    return !r.step_limit && r.max_depth <= cap;
}

Violation make_violation(const std::string& prop, const std::string& cls, const std::string& detail, const Plan& p)
{
    Violation v;
    v.property = prop; v.cls = cls; v.detail = detail; v.plan = p;
    return v;
}

std::string printable(const std::string& s, size_t max)
{
    std::string r;
    for (unsigned char c : s)
    {
        if (r.size() >= max) { r += "..."; break; }
        if (c == '\n') r += "\\n";
        else if (c < 0x20 || c >= 0x7f) { char b[8]; std::snprintf(b, sizeof b, "\\x%02x", c); r += b; }
        else r += char(c);
    }
    return r;
}

void account(CaseCtx& cx, const Plan& p, const RunResult& rr, bool nontrivial)
{
    cx.hashes.push_back(rr.hash);
    if (!cx.st) return;
    Stats& st = *cx.st;
    ++st.runs;
    st.seq_total += rr.events;
    for (const auto& tv : rr.tasks)
        for (const OpResult& o : tv)
        {
            st.steps_total += o.rec.steps;
            for (const auto& kv : o.rend.fired) st.add("fault_fired." + kv.first, kv.second);
            if (o.rec.alloc_fault_fired) st.add("fault_fired.alloc_fail");
            if (o.rec.lex_fault_fired) st.add("fault_fired.lex_fail");
            if (o.rec.wr_failed) st.add("fault_fired.stream_fail");
            if (o.rend.nul_or_high) st.add("probe.input_with_nul_or_high_byte");
            if (o.out.exc == 1) st.add("probe.bad_alloc_propagated");
            if (o.out.exc == 3) st.add("probe.std_exception_from_call");
            if (o.rend.effective_buffer == BUF_CSTRING) st.add("probe.cstring_buffer_path");
            st.add(std::string("buffer.") + (o.rend.effective_buffer == BUF_SIM ? "sim" : o.rend.effective_buffer == BUF_STRING ? "string" : o.rend.effective_buffer == BUF_VIEW ? "view" : "cstring"));
        }
    if (rr.switches) { st.add("switches", rr.switches); st.interleavings.insert(rr.ilv_sig); }
    if (rr.overlap) st.add("probe.switch_while_other_task_inside_call", rr.overlap);
    if (rr.same_parser) st.add("probe.two_tasks_inside_same_parser_driver", rr.same_parser);
    if (nontrivial)
    {
        uint64_t sig = plan_signature(p) ^ (rr.ilv_sig * 0x9e3779b97f4a7c15ull);
        st.distinct.insert(sig);
    }
    if (st.samples.size() < 3 && nontrivial) st.samples.push_back(js::dump(to_json(p)));
}

// ---------------------------------------------------------------------------------------------
bool parse_trace(const std::string& text, std::vector<TraceLine>& out, std::string& err)
{
    size_t i = 0, n = text.size();
    auto starts = [&](size_t at, const char* lit) { size_t l = std::strlen(lit); return at + l <= n && text.compare(at, l, lit) == 0; };
    while (i < n)
    {
        TraceLine tl;
        size_t rec = i;
        if (text[i] != '[') { err = "record does not start with '[' at " + std::to_string(i); return false; }
        ++i;
        size_t j = i; while (j < n && text[j] >= '0' && text[j] <= '9') ++j;
        if (j == i || j >= n || text[j] != ':') { err = "bad line number at " + std::to_string(i); return false; }
        tl.line = std::atoi(text.substr(i, j - i).c_str());
        i = j + 1; j = i; while (j < n && text[j] >= '0' && text[j] <= '9') ++j;
        if (j == i || j >= n || text[j] != ']') { err = "bad column at " + std::to_string(i); return false; }
        tl.col = std::atoi(text.substr(i, j - i).c_str());
        i = j + 1;
        if (i < n && text[i] == ' ') ++i;
        auto rest_of_line = [&](size_t from) -> std::string
        {
            size_t e = text.find('\n', from);
            if (e == std::string::npos) e = n;
            std::string r = text.substr(from, e - from);
            i = e < n ? e + 1 : n;
            return r;
        };
        auto rstrip = [](std::string s) { while (!s.empty() && s.back() == ' ') s.pop_back(); return s; };
        if (starts(i, "REGEX MATCH: ") || starts(i, "LEXER MATCH: "))
        {
            tl.k = TraceLine::LEXER_NOISE;
            tl.s = rest_of_line(i);
        }
        else if (starts(i, "PARSE: "))
        {
            i += 7;
            if (starts(i, "Unexpected character: "))
            {
                i += 22;
                tl.k = TraceLine::UNEXPECTED_CHAR;
                if (i < n) { tl.s = std::string(1, text[i]); ++i; }
                if (i < n && text[i] == '\n') ++i; else if (i < n) { err = "unexpected-character record not terminated"; return false; }
            }
            else if (starts(i, "Recognized ")) { tl.k = TraceLine::RECOGNIZED; tl.s = rstrip(rest_of_line(i + 11)); }
            else if (starts(i, "Shift to "))
            {
                tl.k = TraceLine::SHIFT;
                std::string r = rest_of_line(i + 9);
                size_t c = r.find(", term: ");
                if (c == std::string::npos) { err = "bad shift record"; return false; }
                tl.n = std::atoll(r.substr(0, c).c_str());
                tl.s = r.substr(c + 8);
            }
            else if (starts(i, "Reduced using rule "))
            {
                tl.k = TraceLine::REDUCE;
                std::string r = rest_of_line(i + 19);
                tl.n = std::atoll(r.c_str());
                tl.s = r;
            }
            else if (starts(i, "Go to ")) { tl.k = TraceLine::GOTO; tl.n = std::atoll(rest_of_line(i + 6).c_str()); }
            else if (starts(i, "Syntax error: Unexpected '"))
            {
                tl.k = TraceLine::SYNTAX_ERROR;
                std::string r = rest_of_line(i + 26);
                if (!r.empty() && r.back() == '\'') r.pop_back();
                tl.s = r;
            }
            else if (starts(i, "Entering recovery mode")) { tl.k = TraceLine::ENTER_RECOVERY; rest_of_line(i); }
            else if (starts(i, "Recovering to state ")) { tl.k = TraceLine::RECOVERING_TO; tl.n = std::atoll(rest_of_line(i + 20).c_str()); }
            else if (starts(i, "Could not recover from error")) { tl.k = TraceLine::COULD_NOT_RECOVER; rest_of_line(i); }
            else if (starts(i, "Leaving recovery mode")) { tl.k = TraceLine::LEAVE_RECOVERY; rest_of_line(i); }
            else if (starts(i, "Entering consume mode")) { tl.k = TraceLine::ENTER_CONSUME; rest_of_line(i); }
            else if (starts(i, "Leaving consume mode")) { tl.k = TraceLine::LEAVE_CONSUME; rest_of_line(i); }
            else if (starts(i, "Recovery, consuming term ")) { tl.k = TraceLine::CONSUME_TERM; tl.s = rstrip(rest_of_line(i + 25)); }
            else if (starts(i, "Success")) { tl.k = TraceLine::SUCCESS; rest_of_line(i); }
            else if (starts(i, "R/R conflict encountered")) { tl.k = TraceLine::RR_CONFLICT; rest_of_line(i); }
            else { tl.k = TraceLine::UNKNOWN; tl.s = rest_of_line(i); }
        }
        else { tl.k = TraceLine::UNKNOWN; tl.s = rest_of_line(i); }
        tl.raw = text.substr(rec, i - rec);
        out.push_back(tl);
    }
    return true;
}

}  // namespace sim
