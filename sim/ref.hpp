// Reference model (DESIGN 4): written from the documentation and the property statements,
// deliberately unlike ctpg's implementation (std::set item sets, Thompson NFA simulation).
#pragma once
#include <bitset>
#include <cstdint>
#include <memory>
#include <set>
#include <string>
#include <vector>

namespace ref
{

// ---------------------------------------------------------------------------------------------
// grammar specification (single source: fleet/specs.py -> generated C++ data + generated ctpg code)
enum TermKind { T_CHAR, T_STRING, T_REGEX, T_CUSTOM };
enum Assoc { A_NONE = 0, A_LTOR = 1, A_RTOL = 2 };
enum FtorKind { F_DEFAULT = 0, F_PLAIN = 1, F_CTX = 2,
                F_ELEMENT = 3,        // ftors::_eN: the N-th argument passes through (RuleSpec::eidx)
                F_CREATE_LIST = 4,    // ftors::create<std::vector<V>>
                F_EMPLACE_BACK = 5,   // ftors::emplace_back<1,2>: argument 2 appended to the list in argument 1
                F_TOKREF = 6 };       // functor (const Payload& t) -> const Payload& { return t; }: the value is built from the reference

struct TermSpec
{
    std::string name;     // the name the library must print in messages
    TermKind kind;
    std::string data;     // char: one byte; string: the text; regex: the pattern; custom: unused
    int prec = 0;
    int assoc = A_NONE;
    bool typed = false;   // wrapped in typed_term / custom_term with the logging Tok functor
    bool valueless = false;   // typed_term(..., ftors::create<no_type>{}): its value carries the source point only
};

struct Sym { bool term; int idx; };   // term idx: 0..T-1 real terms, T = <eof>, T+1 = <error_recovery_token>

struct RuleSpec
{
    int lhs;
    std::vector<Sym> rhs;
    int ftor = F_PLAIN;
    int eidx = 0;         // F_ELEMENT: 1-based argument index
    int prec = 0;         // explicit [n]; 0 = none
};

struct GrammarSpec
{
    std::string id;
    std::vector<TermSpec> terms;
    std::vector<std::string> nterms;
    int root = 0;
    std::vector<RuleSpec> rules;   // in the order given to rules(...): index == user rule number
    bool custom_lexer = false;
    bool has_error_rules = false;

    int eof_idx() const { return int(terms.size()); }
    int err_idx() const { return int(terms.size()) + 1; }
    int term_count() const { return int(terms.size()) + 2; }
    std::string term_name(int t) const;
};

// ---------------------------------------------------------------------------------------------
// regular expressions of the documented syntax
struct Re
{
    enum K { SET, CAT, ALT, STAR, PLUS, OPT, REP } k;
    std::bitset<256> set;                 // SET
    std::vector<std::shared_ptr<Re>> ch;  // children
    int n = 0;                            // REP count
};
std::shared_ptr<Re> parse_regex(const std::string& pattern);   // throws std::runtime_error
std::shared_ptr<Re> literal_regex(const std::string& text);

struct Nfa
{
    struct St { std::vector<std::pair<std::bitset<256>, int>> tr; std::vector<int> eps; };
    std::vector<St> st;
    int start = 0, accept = 0;
};
Nfa build_nfa(const Re& re);

struct LexResult
{
    int term = -1;       // -1: no term matches here
    int64_t len = 0;     // length of the longest match
    int64_t dead = 0;    // number of bytes a lexer may legitimately examine: index of the first byte at
                         // which no term can continue, plus one (or n if the input ended first)
};

class Lexer
{
public:
    explicit Lexer(const GrammarSpec& g);
    LexResult match(const char* p, int64_t n) const;
    const std::vector<std::shared_ptr<Re>>& regexes() const { return res; }
private:
    std::vector<std::shared_ptr<Re>> res;
    std::vector<Nfa> nfas;
};

// ---------------------------------------------------------------------------------------------
// canonical LR(1)
struct Action
{
    enum K { ERR, SHIFT, REDUCE, ACCEPT } k = ERR;
    int arg = -1;               // SHIFT: state, REDUCE: user rule number
    bool sr_conflict = false;   // a shift/reduce conflict was resolved here by precedence
};

struct Tables
{
    int nstates = 0;
    std::vector<std::vector<Action>> action;   // [state][term]
    std::vector<std::vector<int>> go;          // [state][nterm], -1 = none
    bool rr_conflict = false;
    int unresolved_sr = 0;                     // S/R conflicts resolved only by the "prefer shift" default
    std::vector<std::vector<bool>> nullable_first_dummy;
};
Tables build_lr1(const GrammarSpec& g);

// ---------------------------------------------------------------------------------------------
// driver
struct Token { int term; int64_t off; int64_t len; int line; int col; };

struct LexAns { int64_t pos; int idx; int64_t len; };

struct RunOptions
{
    bool skip_ws = true;
    bool skip_nl = true;
    bool legacy_pop_first = false;    // model of the unrepaired recovery (one pop before asking the state)
    const std::vector<LexAns>* script = nullptr;   // custom lexer answers by position (custom_lexer grammars)
    int64_t lex_fail_call = -1;
    int64_t max_steps = 50000000;
};

struct Act
{
    enum K { RECOGNIZED, SHIFT, SHIFT_ERR, REDUCE, GOTO, SYNTAX_ERROR, UNEXPECTED_CHAR, ENTER_RECOVERY, RECOVERING_TO,
             COULD_NOT_RECOVER, LEAVE_RECOVERY, ENTER_CONSUME, LEAVE_CONSUME, CONSUME_TERM, SUCCESS } k;
    int a = 0;            // state / user rule number / term index
    int line = 0, col = 0;
    std::string s;        // lexeme or term name
};
const char* act_name(Act::K k);

struct RefResult
{
    bool accepted = false;
    uint64_t digest = 0;
    uint64_t sdigest = 0;
    std::string text;
    std::vector<std::string> messages;       // the non-verbose lines, exact text, in order
    struct Red { int rule; uint64_t digest; uint64_t sdigest; int ctx; };
    std::vector<Red> reds;                   // functor calls (rules with a functor), in order
    std::vector<Act> acts;
    std::vector<Token> tokens;               // every term delivered by the lexer, in order (incl. <eof> once)
    std::vector<Token> shifted;              // the terms that were shifted (their functors ran), in order
    struct LexCall { int64_t pos; int line; int col; int idx; int64_t len; };
    std::vector<LexCall> lexcalls;
    int64_t steps = 0;
    int64_t read_limit_at_first_message = -1;   // highest buffer offset that may have been examined when the first message is written
    bool lexical_error = false;
    int syntax_errors = 0;
    int max_depth = 0;
    // reach probes
    int rec_pops_min = -1, rec_pops_max = -1; bool rec_fail_stack = false, rec_fail_eof = false; int discarded_terms = 0;
    bool reduce_on_error_token = false;
    bool reduce_after_pop = false;            // a state exposed by popping reduced under the error symbol
    bool eof_acted_on_in_consume = false;     // the discard phase ended because <eof> itself was actionable
    bool error_in_consume_lexical = false;
    bool step_limit = false;
};

// the documented matching loop (longest match, stop at the first byte without a transition) over a given automaton
struct DfaLexer
{
    int nstates = 0;
    std::vector<std::vector<int>> next;
    std::vector<int> recognized;
    LexResult match(const char* p, int64_t n) const;
};

struct Model
{
    GrammarSpec g;
    Tables t;
    std::unique_ptr<Lexer> lexer;     // null for custom-lexer grammars
    std::unique_ptr<DfaLexer> dfa;    // when set, terms are delimited by this automaton (the parser's own) instead
    explicit Model(const GrammarSpec& g);
};

RefResult run(const Model& m, const char* bytes, int64_t n, const RunOptions& opt);

// source position rule of C10
inline void advance_pos(int& line, int& col, const char* p, int64_t n)
{
    for (int64_t i = 0; i < n; ++i)
    {
        if (p[i] == '\n') { ++line; col = 1; }
        else ++col;
    }
}

bool is_ws(unsigned char c, bool skip_nl);

}  // namespace ref
