// Seams owned by the simulator: the parties ctpg's run-time driver talks to (DESIGN 1, 3.3).
// Included by the fleet TUs (instrumented); all shared state is behind simrt:: calls.
#pragma once
#include "rt.hpp"
#include "digest.hpp"
#include "seams_stream.hpp"

#include <ctpg/ctpg.hpp>
#include <initializer_list>
#include <iterator>
#include <streambuf>
#include <ostream>
#include <string>
#include <string_view>
#include <vector>
#include <type_traits>

namespace sim
{

// ---------------------------------------------------------------------------------------------
// reader: a user buffer type (README "Buffers") whose every access is an event and is range-checked
class SimBuffer
{
public:
    SimBuffer(const char* base, int64_t len) : base(base), len(len) {}

    struct iterator
    {
        int64_t pos = 0;
        char operator*() const { return simrt::rd(pos); }
        iterator& operator++() { simrt::adv(pos, pos + 1); ++pos; return *this; }
        iterator operator++(int) { iterator i(*this); simrt::adv(pos, pos + 1); ++pos; return i; }
        bool operator==(const iterator& o) const { return pos == o.pos; }
        bool operator!=(const iterator& o) const { return pos != o.pos; }
        iterator& operator+=(size_t n) { simrt::adv(pos, pos + int64_t(n)); pos += int64_t(n); return *this; }
        iterator operator+(size_t n) const { iterator i(*this); simrt::adv(pos, pos + int64_t(n)); i.pos += int64_t(n); return i; }
        // the rest of a random-access iterator: a library change that starts using these must still compile against
        // a user buffer (every movement stays an event and is range-checked)
        using iterator_category = std::random_access_iterator_tag;
        using value_type = char;
        using difference_type = std::ptrdiff_t;
        using pointer = const char*;
        using reference = char;
        iterator& operator--() { simrt::adv(pos, pos - 1); --pos; return *this; }
        iterator operator--(int) { iterator i(*this); simrt::adv(pos, pos - 1); --pos; return i; }
        iterator& operator-=(size_t n) { simrt::adv(pos, pos - int64_t(n)); pos -= int64_t(n); return *this; }
        iterator operator-(size_t n) const { iterator i(*this); simrt::adv(pos, pos - int64_t(n)); i.pos -= int64_t(n); return i; }
        difference_type operator-(const iterator& o) const { return difference_type(pos - o.pos); }
        char operator[](size_t n) const { return simrt::rd(pos + int64_t(n)); }
        bool operator<(const iterator& o) const { return pos < o.pos; }
        bool operator>(const iterator& o) const { return pos > o.pos; }
        bool operator<=(const iterator& o) const { return pos <= o.pos; }
        bool operator>=(const iterator& o) const { return pos >= o.pos; }
    };

    iterator begin() const { return iterator{ 0 }; }
    iterator end() const { return iterator{ len }; }
    std::string_view get_view(iterator a, iterator b) const
    {
        if (!simrt::view(a.pos, b.pos)) return std::string_view();
        return std::string_view(base + a.pos, size_t(b.pos - a.pos));
    }

private:
    const char* base;
    int64_t len;
};

// position of an iterator of any supported buffer kind inside the op's buffer
inline int64_t it_pos(const SimBuffer::iterator& it) { return it.pos; }
inline int64_t it_pos(const char* p) { return simrt::ptr_pos(p); }
inline int64_t it_pos(std::string::const_iterator it) { return simrt::ptr_pos(it.base()); }
template<size_t N>
inline int64_t it_pos_c(const typename ctpg::buffers::cstring_buffer<N>::iterator& it) { return simrt::ptr_pos(it.ptr); }
template<typename It>
inline auto it_pos(const It& it) -> decltype(simrt::ptr_pos(it.ptr)) { return simrt::ptr_pos(it.ptr); }

// ---------------------------------------------------------------------------------------------
// writer: std::ostream over an unbuffered streambuf whose every chunk is an event and which can fail -> seams_stream.hpp

// ---------------------------------------------------------------------------------------------
// custom lexer peer: scripted per op, default-constructed by the library on every term request
// The lexer keeps scratch state in its own members, as a hand-written lexer does (nesting depth, last position...):
// ctpg constructs the lexer object inside the call, so this state can never be seen by another call. What the
// instance had seen before each request is part of the recorded history (C15 compares it with the call in isolation).
struct SimLexer
{
    int64_t calls = 0;
    int64_t last = -1;

    template<typename Iterator, typename ErrorStream>
    constexpr auto match(ctpg::match_options mo, ctpg::source_point sp, Iterator start, Iterator end, ErrorStream&)
    {
        int64_t entry_calls = calls, entry_last = last;
        ++calls;
        last = it_pos(start);
        simrt::LexAnswer a = simrt::lex(it_pos(start), int(sp.line), int(sp.column), mo.verbose, it_pos(end), entry_calls, entry_last);
        if (last != it_pos(start) || calls != entry_calls + 1) simrt::lexer_state_clobbered();
        if (a.idx < 0) return ctpg::recognized_term{};
        return ctpg::recognized_term(ctpg::size16_t(a.idx), size_t(a.len));
    }
};

// ---------------------------------------------------------------------------------------------
// context object
struct SimCtx
{
    uint64_t acc = 0;
    int touches = 0;
    void touch(int rule)
    {
        simrt::ctx_touch(this);
        acc = acc * 1000003ull + uint64_t(rule) + 1;
        ++touches;
    }
};

template<typename C>
inline int ctx_touch(C&& c, int rule)
{
    if constexpr (std::is_same_v<std::decay_t<C>, SimCtx>) { c.touch(rule); return 1; }
    else { (void)c; (void)rule; return 0; }
}

// ---------------------------------------------------------------------------------------------
// what a typed/custom term functor returns: trivially destructible view of its lexeme
struct Tok
{
    const char* p = nullptr;
    size_t n = 0;
    std::string_view sv() const { return std::string_view(p, n); }
};

// Term payloads that are semantic values in their own right (C14 names term values first): ledgered exactly like the
// node types, so a copy made by the library, a payload handed over twice or moved-from, a leak or a double destruction
// of a TERM value is seen. LTok is copyable (a library-side copy is possible and is reported), MTok is move-only
// (it must compile and work). Fleets whose value type is the trivially destructible PNode keep the trivial Tok, or
// the cvector value stack would no longer be selected.
#define SIM_TOK_COMMON(Self)                                                                         \
    const char* p = nullptr;                                                                         \
    size_t n = 0;                                                                                    \
    uint32_t vid = 0;                                                                                \
    bool mf = false;                                                                                 \
    Self(const char* p_, size_t n_) : p(p_), n(n_) { vid = simrt::node_new(this); }                  \
    ~Self() { simrt::node_del(this, vid, !mf); }                                                     \
    Self(Self&& o) noexcept : p(o.p), n(o.n), vid(o.vid), mf(o.mf) { o.mf = true; simrt::node_move(this, vid); } \
    Self& operator=(Self&& o) noexcept                                                               \
    {                                                                                                \
        if (this == &o) return *this;                                                                \
        simrt::node_assign_over(this, vid, !mf);                                                     \
        p = o.p; n = o.n; vid = o.vid; mf = o.mf; o.mf = true;                                       \
        simrt::node_move(this, vid);                                                                 \
        return *this;                                                                                \
    }                                                                                                \
    static constexpr bool is_ledgered = true;                                                        \
    std::string_view sv() const { return std::string_view(p, n); }

struct LTok
{
    SIM_TOK_COMMON(LTok)
    LTok(const LTok& o) : p(o.p), n(o.n), mf(o.mf) { vid = simrt::node_copy(this, o.vid); }
    LTok& operator=(const LTok& o)
    {
        if (this == &o) return *this;
        simrt::node_assign_over(this, vid, !mf);
        p = o.p; n = o.n; mf = o.mf;
        vid = simrt::node_copy(this, o.vid);
        return *this;
    }
};

struct MTok
{
    SIM_TOK_COMMON(MTok)
    MTok(const MTok&) = delete;
    MTok& operator=(const MTok&) = delete;
};

template<typename T> struct is_ledgered_tok : std::false_type {};
template<> struct is_ledgered_tok<LTok> : std::true_type {};
template<> struct is_ledgered_tok<MTok> : std::true_type {};

// ONE functor type for every typed/custom term of a parser, distinguished only by its state: a library that picks
// a term's functor by type instead of by term would call the wrong object
template<typename TokT>
struct TokFtorT
{
    int term;
    TokT operator()(std::string_view sv) const
    {
        simrt::termf(term, sv.data(), int64_t(sv.size()));
        // term functors allocate like user code does (a std::string of the lexeme, a number conversion...): the
        // allocator seam can make exactly this allocation fail, i.e. make the term functor throw
        char* scratch = new char[1 + (sv.size() & 7)];
        asm volatile("" : : "r"(scratch) : "memory");     // (a new/delete pair may otherwise be elided)
        delete[] scratch;
        return TokT{ sv.data(), sv.size() };
    }
};
// a term functor whose result type is std::string_view itself (an unquoting / trimming functor has this shape): it is
// NOT the identity for the library's purposes - it is observed (logged) like every other term functor (S93)
struct SvFtor
{
    int term;
    std::string_view operator()(std::string_view sv) const
    {
        simrt::termf(term, sv.data(), int64_t(sv.size()));
        return sv;
    }
};
struct Node; struct MNode; struct XNode; struct PNode; struct INode; struct ANode;
template<typename V> struct TokOf { using type = Tok; };
template<> struct TokOf<Node> { using type = LTok; };
template<> struct TokOf<XNode> { using type = LTok; };
template<> struct TokOf<INode> { using type = LTok; };
template<> struct TokOf<ANode> { using type = LTok; };
template<> struct TokOf<MNode> { using type = MTok; };
template<typename V> using TokFtorFor = TokFtorT<typename TokOf<V>::type>;

// ---------------------------------------------------------------------------------------------
// instrumented value types
#define SIM_NODE_COMMON(Self, NOEXCEPT_MOVE, KEEPS_KIDS)                                                                        \
    int rule = -1;                                                                                   \
    uint64_t digest = 0;                                                                             \
    uint64_t sdigest = 0; /* structure only: no source points */                                     \
    uint32_t vid = 0;                                                                                \
    bool mf = false; /* moved-from */                                                                \
    int depth = 0; /* nesting of kept kids (bounded, see Builder::add) */                             \
    std::string text; /* human-readable form (diagnostics) */                                        \
    std::vector<Self> kids;                                                                          \
    Self() : digest(empty_default_digest()), sdigest(empty_default_digest()), text("()") { vid = simrt::node_new(this); } \
    ~Self() { simrt::node_del(this, vid, !mf); }                                                     \
    Self(Self&& o) noexcept(NOEXCEPT_MOVE)                                                           \
        : rule(o.rule), digest(o.digest), sdigest(o.sdigest), vid(o.vid), mf(o.mf), depth(o.depth), text(std::move(o.text)), kids(std::move(o.kids)) \
    {                                                                                                \
        o.mf = true;                                                                                 \
        simrt::node_move(this, vid);                                                                 \
    }                                                                                                \
    Self& operator=(Self&& o) noexcept(NOEXCEPT_MOVE)                                                \
    {                                                                                                \
        if (this == &o) return *this;                                                                \
        simrt::node_assign_over(this, vid, !mf);                                                     \
        rule = o.rule; digest = o.digest; sdigest = o.sdigest; vid = o.vid; mf = o.mf; depth = o.depth; \
        text = std::move(o.text); kids = std::move(o.kids);                                          \
        o.mf = true;                                                                                 \
        simrt::node_move(this, vid);                                                                 \
        return *this;                                                                                \
    }                                                                                                \
    static constexpr bool keeps_text = true;                                                         \
    static constexpr bool keeps_kids = KEEPS_KIDS;                                                   \
    static constexpr bool is_ledgered = true;                                                        \
    uint64_t get_digest() const { return digest; }                                                   \
    uint64_t get_sdigest() const { return sdigest; }

#define SIM_NODE_COMMON_NO_MOVE_ASSIGN(Self)                                                                        \
    int rule = -1;                                                                                   \
    uint64_t digest = 0;                                                                             \
    uint64_t sdigest = 0; /* structure only: no source points */                                     \
    uint32_t vid = 0;                                                                                \
    bool mf = false; /* moved-from */                                                                \
    int depth = 0; /* nesting of kept kids (bounded, see Builder::add) */                             \
    std::string text; /* human-readable form (diagnostics) */                                        \
    std::vector<Self> kids;                                                                          \
    Self() : digest(empty_default_digest()), sdigest(empty_default_digest()), text("()") { vid = simrt::node_new(this); } \
    ~Self() { simrt::node_del(this, vid, !mf); }                                                     \
    Self(Self&& o) noexcept(true)                                                           \
        : rule(o.rule), digest(o.digest), sdigest(o.sdigest), vid(o.vid), mf(o.mf), depth(o.depth), text(std::move(o.text)), kids(std::move(o.kids)) \
    {                                                                                                \
        o.mf = true;                                                                                 \
        simrt::node_move(this, vid);                                                                 \
    }                                                                                                \
    static constexpr bool keeps_text = true;                                                         \
    static constexpr bool keeps_kids = true;                                                   \
    static constexpr bool is_ledgered = true;                                                        \
    uint64_t get_digest() const { return digest; }                                                   \
    uint64_t get_sdigest() const { return sdigest; }


// copyable: a library-side copy is possible and is what the ledger must report
struct Node
{
    SIM_NODE_COMMON(Node, true, true)
    // built from a REFERENCE to a term payload: what a rule functor `(const Payload& t) -> const Payload& { return t; }`
    // makes the library do. The payload must still be alive when the library constructs the value from it (S112)
    explicit Node(const LTok& t) : Node()
    {
        simrt::node_read(t.vid);
        rule = -3;
        digest = sdigest = tokref_digest(t.sv());
        text = "(ref '" + std::string(t.sv()) + "')";
    }
    Node(const Node& o) : rule(o.rule), digest(o.digest), sdigest(o.sdigest), mf(o.mf), depth(o.depth), text(o.text), kids(o.kids)
    {
        vid = simrt::node_copy(this, o.vid);
    }
    Node& operator=(const Node& o)
    {
        if (this == &o) return *this;
        simrt::node_assign_over(this, vid, !mf);
        rule = o.rule; digest = o.digest; sdigest = o.sdigest; mf = o.mf; depth = o.depth; text = o.text; kids = o.kids;
        vid = simrt::node_copy(this, o.vid);
        return *this;
    }
};

// move-only: must compile and work (C14 "move-only value types work")
struct MNode
{
    SIM_NODE_COMMON(MNode, true, true)
    MNode(const MNode&) = delete;
    MNode& operator=(const MNode&) = delete;
};

// copyable, but its move constructor may throw (like std::deque, or a user type whose move lacks noexcept): the value
// variant's move is then not noexcept either, which is what std::move_if_noexcept-style code keys on. It keeps no
// children (a std::vector of it would itself copy on growth).
struct XNode
{
    SIM_NODE_COMMON(XNode, false, false)
    XNode(const XNode& o) : rule(o.rule), digest(o.digest), sdigest(o.sdigest), mf(o.mf), depth(o.depth), text(o.text), kids(o.kids)
    {
        vid = simrt::node_copy(this, o.vid);
    }
    XNode& operator=(const XNode& o)
    {
        if (this == &o) return *this;
        simrt::node_assign_over(this, vid, !mf);
        rule = o.rule; digest = o.digest; sdigest = o.sdigest; mf = o.mf; depth = o.depth; text = o.text; kids = o.kids;
        vid = simrt::node_copy(this, o.vid);
        return *this;
    }
};

// copyable and move-CONSTRUCTIBLE, but with a copy assignment only (rule of three plus a move constructor): whenever the
// library ASSIGNS a value where it used to construct one, the assignment is a copy (S111)
struct ANode
{
    SIM_NODE_COMMON_NO_MOVE_ASSIGN(ANode)
    ANode(const ANode& o) : rule(o.rule), digest(o.digest), sdigest(o.sdigest), mf(o.mf), depth(o.depth), text(o.text), kids(o.kids)
    {
        vid = simrt::node_copy(this, o.vid);
    }
    ANode& operator=(const ANode& o)
    {
        if (this == &o) return *this;
        simrt::node_assign_over(this, vid, !mf);
        rule = o.rule; digest = o.digest; sdigest = o.sdigest; mf = o.mf; depth = o.depth; text = o.text; kids = o.kids;
        vid = simrt::node_copy(this, o.vid);
        return *this;
    }
};

// copyable, and constructible from a braced list of itself, like JSON-/S-expression-style value classes
// (`value{a, b}` makes an array of copies): a library that writes T{expr} where it means T(expr) silently selects this
// constructor, wraps the value one level deeper and copies it (S79)
struct INode
{
    SIM_NODE_COMMON(INode, true, true)
    INode(const INode& o) : rule(o.rule), digest(o.digest), sdigest(o.sdigest), mf(o.mf), depth(o.depth), text(o.text), kids(o.kids)
    {
        vid = simrt::node_copy(this, o.vid);
    }
    INode& operator=(const INode& o)
    {
        if (this == &o) return *this;
        simrt::node_assign_over(this, vid, !mf);
        rule = o.rule; digest = o.digest; sdigest = o.sdigest; mf = o.mf; depth = o.depth; text = o.text; kids = o.kids;
        vid = simrt::node_copy(this, o.vid);
        return *this;
    }
    INode(std::initializer_list<INode> l) : INode()
    {
        rule = -2;
        uint64_t hl = list_digest_begin(), hls = hl;
        text = "{";
        for (const INode& e : l)
        {
            hl = list_digest_add(hl, e.digest); hls = list_digest_add(hls, e.sdigest);
            if (text.size() + e.text.size() < 4096) { text += " "; text += e.text; }
            if (e.depth + 1 > depth) depth = e.depth + 1;
            kids.push_back(e);
        }
        text += " }";
        digest = hl; sdigest = hls;
    }
};

// trivially destructible fixed-size value: selects the cvector *value* stack for cstring_buffer
struct PNode
{
    int rule = -1;
    uint32_t nkids = 0;
    uint64_t digest = 0xdefa017ull;   // == empty_default_digest()
    uint64_t sdigest = 0xdefa017ull;
    // copies are observable (counted by the ledger) although the type stays trivially destructible: a fixed-capacity
    // stack that copy-assigns where it should move is seen
    PNode() = default;
    PNode(const PNode& o) : rule(o.rule), nkids(o.nkids), digest(o.digest), sdigest(o.sdigest) { simrt::trivial_copy(); }
    PNode& operator=(const PNode& o) { rule = o.rule; nkids = o.nkids; digest = o.digest; sdigest = o.sdigest; simrt::trivial_copy(); return *this; }
    PNode(PNode&& o) noexcept : rule(o.rule), nkids(o.nkids), digest(o.digest), sdigest(o.sdigest) {}
    PNode& operator=(PNode&& o) noexcept { rule = o.rule; nkids = o.nkids; digest = o.digest; sdigest = o.sdigest; return *this; }
    static constexpr bool keeps_text = false;
    static constexpr bool is_ledgered = false;
    uint64_t get_digest() const { return digest; }
    uint64_t get_sdigest() const { return sdigest; }
};
static_assert(std::is_trivially_destructible_v<PNode> && std::is_default_constructible_v<PNode>);

// ---------------------------------------------------------------------------------------------
// generic functor body: builds the value of a reduction from its arguments and records the call
namespace detail
{
    template<typename V>
    struct Builder
    {
        struct Scope { Scope() { simrt::functor_enter(); } ~Scope() { simrt::functor_leave(); } } scope;
        V v;
        uint64_t h, hs;
        int n = 0;
        explicit Builder(int rule) : h(node_digest_begin(rule)), hs(node_digest_begin(rule)) { v.rule = rule; if constexpr (V::keeps_text) { v.text = "(r" + std::to_string(rule); } }

        void leaf(std::string_view lex, uint32_t line, uint32_t col)
        {
            h = node_digest_add(h, leaf_digest(lex, line, col));
            hs = node_digest_add(hs, leaf_digest(lex, 0, 0));
            if constexpr (V::keeps_text)
            {
                if (v.text.size() + lex.size() < 4096)
                {
                    v.text += " '";
                    v.text.append(lex.data(), lex.size());
                    v.text += "'@" + std::to_string(line) + ":" + std::to_string(col);
                }
            }
            ++n;
        }
        void add(V&& child)
        {
            if constexpr (V::is_ledgered) simrt::node_use(child.vid, child.mf);
            h = node_digest_add(h, child.get_digest());
            hs = node_digest_add(hs, child.get_sdigest());
            if constexpr (V::keeps_text)
            {
                // the text is a diagnostic: bounded, or deep nesting would make building it quadratic
                if (v.text.size() + child.text.size() < 4096) { v.text += " "; v.text += child.text; }
                else if (v.text.size() < 4096 + 8) v.text += " ...";
                // kids are kept for a realistic object graph, to a bounded depth: destruction is recursive
                if constexpr (V::keeps_kids)
                    if (child.depth < 1500)
                    {
                        if (child.depth + 1 > v.depth) v.depth = child.depth + 1;
                        v.kids.push_back(std::move(child));
                    }
            }
            ++n;
        }
        // a list built by the library's helper functors (ftors::create / emplace_back): every element is consumed here
        void add(std::vector<V>&& lst)
        {
            uint64_t hl = list_digest_begin(), hls = hl;
            if constexpr (V::keeps_text) if (v.text.size() < 4096) v.text += " [";
            for (V& e : lst)
            {
                if constexpr (V::is_ledgered) simrt::node_use(e.vid, e.mf);
                hl = list_digest_add(hl, e.get_digest());
                hls = list_digest_add(hls, e.get_sdigest());
                if constexpr (V::keeps_text)
                {
                    if (v.text.size() + e.text.size() < 4096) { v.text += " "; v.text += e.text; }
                    if constexpr (V::keeps_kids)
                        if (e.depth < 1500)
                        {
                            if (e.depth + 1 > v.depth) v.depth = e.depth + 1;
                            v.kids.push_back(std::move(e));
                        }
                }
            }
            h = node_digest_add(h, hl);
            hs = node_digest_add(hs, hls);
            ++n;
        }
        void add(std::vector<V>& lst) { std::vector<V> tmp(std::move(lst)); if constexpr (V::is_ledgered) simrt::node_lvalue_arg(0); add(std::move(tmp)); }
        // a value that arrives as an lvalue cannot be taken by a by-value parameter without a copy (and not at all
        // when it is move-only): behave like such a functor would
        void add(V& child)
        {
            if constexpr (V::is_ledgered) simrt::node_lvalue_arg(child.vid);
            if constexpr (std::is_copy_constructible_v<V>) { V tmp(child); add(std::move(tmp)); }
            else add(std::move(child));
        }
        void add(const V& child)
        {
            if constexpr (V::is_ledgered) simrt::node_lvalue_arg(child.vid);
            if constexpr (std::is_copy_constructible_v<V>) { V tmp(child); add(std::move(tmp)); }
        }
        template<typename T> void add(ctpg::term_value<T>& t)
        {
            if constexpr (is_ledgered_tok<T>::value) simrt::node_lvalue_arg(t.get_value().vid);
            if constexpr (std::is_copy_constructible_v<T>) add(ctpg::term_value<T>(t)); else add(std::move(t));
        }
        template<typename T> void add(const ctpg::term_value<T>& t)
        {
            if constexpr (is_ledgered_tok<T>::value) simrt::node_lvalue_arg(t.get_value().vid);
            if constexpr (std::is_copy_constructible_v<T>) add(ctpg::term_value<T>(t));
        }
        void add(ctpg::no_type&) { error_leaf(); }
        void add(const ctpg::no_type&) { error_leaf(); }
        void add(ctpg::term_value<std::string_view>&& t) { leaf(t.get_value(), t.get_line(), t.get_column()); }
        void add(ctpg::term_value<char>&& t) { char c = t; ctpg::source_point sp = t.get_sp(); leaf(std::string_view(&c, 1), sp.line, sp.column); }   // conversion operator + get_sp()
        void add(ctpg::term_value<Tok>&& t) { leaf(t.get_value().sv(), t.get_line(), t.get_column()); }
        // a ledgered term value is consumed the way a by-value functor parameter consumes it: moved out of the stack slot
        template<typename T, std::enable_if_t<is_ledgered_tok<T>::value, int> = 0>
        void add(ctpg::term_value<T>&& t)
        {
            simrt::node_use(t.get_value().vid, t.get_value().mf);
            // (1) a functor that INSPECTS its named argument first (the implicit conversion from an lvalue is a copy the
            //     functor asks for): the argument itself must stay intact
            if constexpr (std::is_copy_constructible_v<T>)
            {
                simrt::own_copies(+1);
                T peek = t;
                simrt::own_copies(-1);
                (void)peek.sv();
                if (t.get_value().mf) simrt::node_use(t.get_value().vid, true);      // emptied behind the functor's back
            }
            ctpg::source_point sp = t.get_sp();
            // (2) ... and then TAKES the payload the way a by-value parameter `T x` does: converted from the rvalue.
            //     That must be a move (and must compile for a move-only payload)
            int64_t copies = simrt::copies_so_far();
            T own = std::move(t);
            if (simrt::copies_so_far() != copies) simrt::node_lvalue_arg(own.vid);    // could only be copied out
            leaf(own.sv(), sp.line, sp.column);
        }
        void error_leaf()
        {
            h = node_digest_add(h, error_leaf_digest());
            hs = node_digest_add(hs, error_leaf_digest());
            if constexpr (V::keeps_text) v.text += " <error>";
            ++n;
        }
        // a term declared with ftors::create<no_type>{} (the readme's idiom for terms without a value): source point only
        void add(ctpg::term_value<ctpg::no_type>&& t) { leaf(std::string_view(), t.get_line(), t.get_column()); }
        void add(ctpg::no_type&&) { error_leaf(); }   // value type of the error symbol
        V finish(int ctx)
        {
            h = node_digest_end(h, n);
            hs = node_digest_end(hs, n);
            v.digest = h;
            v.sdigest = hs;
            if constexpr (V::keeps_text) v.text += ")";
            if constexpr (!V::is_ledgered) v.nkids = uint32_t(n);
            // re-entrancy (C15): the functor itself makes the task's next call, with this call still on the stack
            if (simrt::red(v.rule, h, hs, ctx)) simrt::run_nested();
            return std::move(v);
        }
    };
}

// plain functor (>=)
template<typename V, int Rule>
struct Mk
{
    // state of the functor OBJECT: which parser object it was given to (0: the constexpr instance, 1: the instance the
    // factory builds at run time). Two parser objects of one C++ type differ only in such state; a call on one of them
    // must run ITS functors (S105: a per-type cache of the first object's functor table)
    int owner = 0;
    template<typename... A>
    V operator()(A&&... a) const
    {
        detail::Builder<V> b(Rule);
        (b.add(std::forward<A>(a)), ...);
        simrt::functor_owner(owner);
        return b.finish(0);
    }
    // the functors live inside a parser object whose parse functions are const: they must be reached as const objects.
    // A functor type with BOTH call operators shows which one the library selects (S123: get_f() const_casts the functor,
    // a stateful non-const operator() then writes into the parser object on every reduction)
    template<typename... A>
    V operator()(A&&... a)
    {
        simrt::functor_mutable();
        return std::as_const(*this)(std::forward<A>(a)...);
    }
};

// a functor with an explicitly typed parameter that differs from the stack slot's type (the library converts
// term_value<LTok> to a temporary LTok) and whose RESULT REFERS to that parameter: the conversion temporary has to live
// until the library has built the nonterminal's value from the result
template<typename V, int Rule>
struct MkTokRef
{
    int owner = 0;
    const LTok& operator()(const LTok& t) const
    {
        simrt::functor_enter();
        simrt::functor_owner(owner);
        simrt::node_use(t.vid, t.mf);
        uint64_t d = tokref_digest(t.sv());
        simrt::red(Rule, d, d, 0);
        simrt::functor_leave();
        return t;
    }
};

// contextual functor (>>=): the first argument is whatever the caller passed as context
template<typename V, int Rule>
struct MkCtx
{
    int owner = 0;
    template<typename C, typename... A>
    V operator()(C&& c, A&&... a) const
    {
        simrt::functor_owner(owner);
        int touched = ctx_touch(std::forward<C>(c), Rule);
        // 1: not a SimCtx (plain parse), 2: SimCtx received as an lvalue, 3: SimCtx received as an rvalue (temporary context)
        int category = touched ? (std::is_lvalue_reference_v<C> ? 2 : 3) : 1;
        detail::Builder<V> b(Rule);
        (b.add(std::forward<A>(a)), ...);
        return b.finish(category);
    }
    template<typename C, typename... A>
    V operator()(C&& c, A&&... a)
    {
        simrt::functor_mutable();
        return std::as_const(*this)(std::forward<C>(c), std::forward<A>(a)...);
    }
};

}  // namespace sim
