// Simulator runtime: the only place where state shared between simulated tasks lives.
// rt.cpp is compiled WITHOUT sanitizer instrumentation in every build flavour (DESIGN 3.2):
// under TSan the task handoff and the simulator's bookkeeping stay invisible, so the tasks
// remain unordered for the race detector while the scheduler serialises them.
//
// Everything here is callable from instrumented code (seams.hpp, fleet TUs) and passes plain
// values only.
#pragma once
#include <cstdint>
#include <cstddef>
#include <string>
#include <vector>

namespace simrt
{

enum Kind : uint8_t
{
    K_CALL = 1, K_RET,
    K_RD, K_ADV, K_VIEW, K_OOB_READ, K_OOB_ITER, K_OOB_VIEW,
    K_WR, K_WRFAIL,
    K_TERMF, K_RED, K_CTX, K_LEX,
    K_ALLOC, K_ALLOCFAIL,
    K_STEP, K_LSTEP, K_BOUNDS,
    K_NEW, K_COPY, K_MOVE, K_DEL, K_USE, K_LEDGER_BAD,
    K_SWITCH, K_BUDGET,
    K_MAX
};
const char* kind_name(uint8_t k);

struct Event
{
    uint32_t seq;
    uint8_t task;
    uint8_t kind;
    uint16_t op;     // index of the op inside its task
    int64_t a;
    int64_t b;
};

// thrown (from hooks and seams) to abandon a run whose step/read budget is exhausted
struct BudgetExceeded { int what; };

struct LexAnswer { int64_t pos; int idx; int64_t len; };   // idx < 0 : "no term"

// ---------------------------------------------------------------------------------------------
// Per-op record. Filled by begin_op()/the seams while the op runs, read by the oracles afterwards.
struct OpRec
{
    int task = 0, op = 0;
    // seam configuration (set before the call)
    const char* buf_base = nullptr; int64_t buf_len = 0;
    int64_t wr_quota = -1;            // bytes the stream accepts before failing; -1 = healthy
    int wr_fail_mode = 0;             // 0: short write then eof, 1: refuse whole chunk
    int64_t alloc_fail_at = -1;       // index of the allocation (inside the call) that fails; -1 = none
    std::vector<LexAnswer> script;    // SimLexer answers by position
    int64_t lex_fail_call = -1;       // SimLexer: the k-th call answers "no term"
    int64_t step_budget = -1, rd_budget = -1;
    const void* ctx_addr = nullptr;   // the context object handed to context_parse (for confinement)
    // observations
    bool in_call = false;
    std::string wrote;                // bytes accepted by the SimStream
    int64_t wr_attempted = 0; bool wr_failed = false; int64_t wr_events = 0;
    int64_t first_wr_seq = -1, maxrd_at_first_wr = -2, reds_at_first_wr = -1;
    int64_t maxrd = -1, rds = 0, advs = 0, steps = 0, lsteps = 0, allocs = 0, lex_calls = 0;
    int64_t oob_read = 0, oob_iter = 0, oob_view = 0, bounds_bad = 0;
    bool alloc_fault_fired = false, lex_fault_fired = false, budget_hit = false;
    bool alloc_fault_in_functor = false;
    int functor_depth = 0;
    // functor history
    struct Red { int rule; uint64_t digest; uint64_t sdigest; int ctx; uint32_t seq; };
    std::vector<Red> reds;
    struct TermF { int term; int64_t off; int64_t len; uint32_t seq; };
    std::vector<TermF> termfs;
    struct Lex { int64_t pos; int line; int col; int idx; int64_t len; uint32_t seq; int verbose; int64_t end_pos; int64_t inst_calls; int64_t inst_last; };
    int own_copy_depth = 0;
    int expected_owner = 0;          // which parser object this call was made on (0 constexpr instance, 1 run-time built instance)
    int64_t foreign_functor_calls = 0;   // rule functors of ANOTHER parser object ran during this call
    int64_t mutable_functor_calls = 0;   // rule functors reached through NON-CONST access to the (const) parser object
    int64_t lexer_state_clobbered = 0;
    // re-entrancy: at functor call #nest_at of this call, the NEXT op of the task is executed from inside the functor
    int64_t nest_at = -1;
    bool nest_fired = false;      // this call made the nested call
    bool ran_nested = false;      // this call was made from inside a functor of the previous op       // the lexer instance's own scratch member changed under a request
    std::vector<Lex> lexes;
    int64_t ctx_foreign = 0, ctx_touches = 0;
    // value ledger
    int64_t n_new = 0, n_copy = 0, n_move = 0, n_del = 0, n_use = 0;
    int64_t live_after = 0;
    int64_t double_del = 0, ctor_over_live = 0, use_twice = 0, use_moved_from = 0, use_dead = 0, copy_in_lib = 0, arg_lvalue = 0;
    uint32_t ev_begin = 0, ev_end = 0;
};

// ---------------------------------------------------------------------------------------------
// run control (called from the worker's main thread only)
void reset_run(int ntasks, const std::vector<uint8_t>& schedule, bool record_events);
OpRec& new_op(int task);                 // appends an op record to the task (before the run starts)
std::vector<OpRec>& task_ops(int task);
typedef void (*TaskBody)(int task, void* arg);
void run_tasks(TaskBody body, void* arg); // runs all tasks of the run to completion under the seeded schedule
const std::vector<Event>& events();
uint64_t run_hash();                     // 64-bit hash of the complete event history of the run
uint32_t seq_now();
int64_t switches_done();
uint64_t interleaving_sig();             // hash of (task, kind) at the points where a switch really happened
int64_t overlap_switches();              // switches that happened while another task was inside a library call
int64_t same_parser_overlap();           // probe: two tasks inside the same parser's driver at a switch
void set_current_parser(const void* p);  // for the probe above
void shutdown_pool();

// TSan report counter (incremented from __tsan_on_report in the tsan flavour)
int64_t tsan_reports();
void tsan_report_hit();

// ---------------------------------------------------------------------------------------------
// seam entry points (called from task threads)
void begin_op(int op_index);             // selects the current op of the calling task, logs CALL
void end_op();                           // logs RET
OpRec* cur();                            // current op of the calling task (nullptr outside)
void set_buffer(const char* base, int64_t len);
void set_ctx(const void* addr);
int cur_task();

char rd(int64_t pos);
void adv(int64_t from, int64_t to);
bool view(int64_t a, int64_t b);
int64_t wr(const char* p, int64_t n);    // returns number of bytes accepted
void termf(int term, const char* p, int64_t len);
bool red(int rule, uint64_t digest, uint64_t sdigest, int ctx);   // true: make the nested call now (run_nested)
void set_nest_callback(void (*cb)(void*, int task, int op), void* arg);
void run_nested();
void ctx_touch(const void* addr);
LexAnswer lex(int64_t pos, int line, int col, bool verbose, int64_t end_pos, int64_t inst_calls = 0, int64_t inst_last = -1);
void lexer_state_clobbered();
int64_t ptr_pos(const char* p);          // position of a raw pointer relative to the op's buffer
void step(bool stacks_ok);
void lstep(bool state_ok);

// value ledger
uint32_t node_new(const void* addr);                          // returns fresh value id
uint32_t node_copy(const void* addr, uint32_t src_vid);       // returns fresh value id (a duplicate exists now)
void node_move(const void* addr, uint32_t vid);               // value vid now lives at addr
void node_del(const void* addr, uint32_t vid, bool holds_value);
void node_use(uint32_t vid, bool moved_from);                 // value handed to a functor as argument
void node_assign_over(const void* addr, uint32_t old_vid, bool held_value);
void trivial_copy();                                          // a copy of the trivially destructible value type was made
void node_lvalue_arg(uint32_t vid);
void node_read(uint32_t vid);                                  // the object is read (not consumed): it must be alive
int64_t copies_so_far();
void own_copies(int delta);
void functor_mutable();                                          // a rule functor's non-const call operator was selected
void functor_owner(int owner);                                  // a rule functor object reports which parser object it belongs to
void set_expected_owner(int owner);                                    // +1/-1 around a copy the functor itself asks for (not the library's)                                       // copies made during the current call (ledgered objects)                           // a functor received the value as an lvalue (cannot be moved from by a by-value parameter)

// allocator control
void set_alloc_tracking(bool on);
void functor_enter();
void functor_leave();
int64_t task_live(int task);             // live ledgered objects of a task (after the run)

}  // namespace simrt
