#pragma once
#include "ref.hpp"
#include <string>
#include <utility>
#include <vector>
namespace ref {
const std::vector<GrammarSpec>& all_specs();
const std::vector<std::pair<std::string, std::string>>& all_regexes();
}
