// Canonical digests of semantic values: shared by the seams (real run) and the reference model.
#pragma once
#include <cstdint>
#include <string_view>

namespace sim
{
// digests: the canonical content of a value (what the reference model must reproduce)
inline uint64_t dmix(uint64_t h, uint64_t v)
{
    h ^= v + 0x9e3779b97f4a7c15ull + (h << 6) + (h >> 2);
    h *= 0xff51afd7ed558ccdull;
    h ^= h >> 29;
    return h;
}
inline uint64_t leaf_digest(std::string_view lex, uint32_t line, uint32_t col)
{
    uint64_t h = 0x6c656166ull;
    for (unsigned char c : lex) h = dmix(h, c);
    h = dmix(h, 0x100000000ull | line);
    h = dmix(h, 0x200000000ull | col);
    return h;
}
inline uint64_t error_leaf_digest() { return 0x6572726f72ull; }
inline uint64_t node_digest_begin(int rule) { return dmix(0x6e6f6465ull, uint64_t(uint32_t(rule))); }
inline uint64_t node_digest_add(uint64_t h, uint64_t child) { return dmix(h, child); }
inline uint64_t node_digest_end(uint64_t h, int n) { return dmix(h, 0xe0d00000ull | uint32_t(n)); }
inline uint64_t empty_default_digest() { return 0xdefa017ull; }
// value built from a REFERENCE to a term payload (functor returning a reference to its parameter): lexeme only
inline uint64_t tokref_digest(std::string_view lex) { uint64_t h = node_digest_begin(-3); h = node_digest_add(h, leaf_digest(lex, 0, 0)); return node_digest_end(h, 1); }
inline uint64_t list_digest_begin() { return 0x6c697374ull; }
inline uint64_t list_digest_add(uint64_t h, uint64_t elem) { return dmix(h, elem); }

}  // namespace sim
