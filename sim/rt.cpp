// Simulator runtime (uninstrumented in every flavour, see rt.hpp).
#include "rt.hpp"

#include <atomic>
#include <climits>
#include <cstdio>
#include <cstdlib>
#include <cstring>
#include <new>
#include <unordered_map>
#include <pthread.h>
#include <unistd.h>
#include <sys/syscall.h>
#include <linux/futex.h>

// Optional TSan annotations: resolved only in the tsan flavour (weak otherwise).
extern "C" void __tsan_acquire(void* addr) __attribute__((weak));
extern "C" void __tsan_release(void* addr) __attribute__((weak));

namespace simrt
{

static const char* const kind_names[K_MAX] = {
    "?", "CALL", "RET", "RD", "ADV", "VIEW", "OOB_READ", "OOB_ITER", "OOB_VIEW", "WR", "WRFAIL",
    "TERMF", "RED", "CTX", "LEX", "ALLOC", "ALLOCFAIL", "STEP", "LSTEP", "BOUNDS",
    "NEW", "COPY", "MOVE", "DEL", "USE", "LEDGER_BAD", "SWITCH", "BUDGET" };
const char* kind_name(uint8_t k) { return k < K_MAX ? kind_names[k] : "?"; }

static const int MAX_TASKS = 8;

struct ValRec { bool used = false; int destroyed = 0; };

struct TaskState
{
    int id = 0;
    std::vector<OpRec> ops;
    int cur_op = -1;
    bool done = false;
    bool started = false;
    const void* cur_parser = nullptr;
    // ledger (per task; values created in one op may be destroyed in the epilogue of the same op)
    std::unordered_map<const void*, uint32_t> live;   // object address -> value id it holds (0: moved-from)
    std::vector<ValRec> vals;
};

static TaskState g_tasks[MAX_TASKS];
static int g_ntasks = 0;
static std::vector<uint8_t> g_schedule;
static size_t g_sched_pos = 0;
static std::vector<Event> g_events;
static bool g_record = true;
static uint32_t g_seq = 0;
static uint64_t g_hash = 0;
static int64_t g_switches = 0, g_overlap = 0, g_same_parser = 0;
static uint64_t g_ilv_sig = 0;
static std::atomic<int64_t> g_tsan_reports{0};

static thread_local TaskState* tls_task = nullptr;
static thread_local int tls_in_rt = 0;

struct RtGuard { RtGuard() { ++tls_in_rt; } ~RtGuard() { --tls_in_rt; } };
static void (*g_nest_cb)(void*, int, int) = nullptr;
static void* g_nest_arg = nullptr;

static inline uint64_t mix(uint64_t h, uint64_t v)
{
    h ^= v + 0x9e3779b97f4a7c15ull + (h << 6) + (h >> 2);
    h *= 0xff51afd7ed558ccdull;
    h ^= h >> 32;
    return h;
}

int64_t tsan_reports() { return g_tsan_reports.load(); }
void tsan_report_hit() { g_tsan_reports.fetch_add(1); }

// ---------------------------------------------------------------------------------------------
// scheduler: one futex word says whose turn it is (-1 = the worker's main thread)
static std::atomic<int> g_turn{-1};
static std::atomic<int> g_quit{0};
static pthread_t g_threads[MAX_TASKS];
static int g_pool_size = 0;
static TaskBody g_body = nullptr;
static void* g_body_arg = nullptr;
static int g_phase_token;   // address used for the TSan phase annotations

static void futex_wait(std::atomic<int>* w, int seen)
{
    syscall(SYS_futex, reinterpret_cast<int*>(w), FUTEX_WAIT_PRIVATE, seen, nullptr, nullptr, 0);
}
static void futex_wake_all(std::atomic<int>* w)
{
    syscall(SYS_futex, reinterpret_cast<int*>(w), FUTEX_WAKE_PRIVATE, INT_MAX, nullptr, nullptr, 0);
}
static void park_until(int me)
{
    for (;;)
    {
        int t = g_turn.load(std::memory_order_acquire);
        if (t == me) return;
        futex_wait(&g_turn, t);
    }
}
static void give(int to)
{
    g_turn.store(to, std::memory_order_release);
    futex_wake_all(&g_turn);
}

static int pick_next_runnable(int except, int k)
{
    // k-th (modulo) runnable task other than 'except'; -1 if none
    int cand[MAX_TASKS]; int n = 0;
    for (int i = 0; i < g_ntasks; ++i)
        if (i != except && !g_tasks[i].done) cand[n++] = i;
    if (n == 0) return -1;
    return cand[k % n];
}

static void log_event(uint8_t kind, int64_t a, int64_t b);

static void* pool_main(void* arg)
{
    int me = int(reinterpret_cast<intptr_t>(arg));
    tls_task = &g_tasks[me];
    for (;;)
    {
        park_until(me);
        if (g_quit.load()) return nullptr;
        if (__tsan_acquire) __tsan_acquire(&g_phase_token);
        TaskState& t = g_tasks[me];
        t.started = true;
        g_body(me, g_body_arg);
        t.done = true;
        if (__tsan_release) __tsan_release(&g_phase_token);
        int next = pick_next_runnable(me, 0);
        give(next);   // -1 wakes the main thread when every task is done
    }
}

static void ensure_pool(int n)
{
    while (g_pool_size < n)
    {
        pthread_attr_t at; pthread_attr_init(&at);
        pthread_attr_setstacksize(&at, 64u << 20);
        pthread_create(&g_threads[g_pool_size], &at, pool_main, reinterpret_cast<void*>(intptr_t(g_pool_size)));
        pthread_attr_destroy(&at);
        ++g_pool_size;
    }
}

void shutdown_pool()
{
    if (g_pool_size == 0) return;
    g_quit.store(1);
    for (int i = 0; i < g_pool_size; ++i)
    {
        give(i);
        pthread_join(g_threads[i], nullptr);
    }
    g_pool_size = 0;
    g_quit.store(0);
    g_turn.store(-1);
}

void reset_run(int ntasks, const std::vector<uint8_t>& schedule, bool record_events)
{
    RtGuard g;
    if (ntasks > MAX_TASKS) ntasks = MAX_TASKS;
    g_ntasks = ntasks;
    for (int i = 0; i < MAX_TASKS; ++i)
    {
        TaskState& t = g_tasks[i];
        t.id = i; t.ops.clear(); t.cur_op = -1; t.done = false; t.started = false; t.cur_parser = nullptr;
        t.live.clear(); t.vals.clear(); t.vals.emplace_back();
    }
    g_schedule = schedule; g_sched_pos = 0;
    g_events.clear(); g_record = record_events;
    g_seq = 0; g_hash = 0x1234567; g_switches = 0; g_overlap = 0; g_same_parser = 0; g_ilv_sig = 0x77;
}

OpRec& new_op(int task)
{
    RtGuard g;
    TaskState& t = g_tasks[task];
    t.ops.emplace_back();
    t.ops.back().task = task;
    t.ops.back().op = int(t.ops.size()) - 1;
    return t.ops.back();
}
std::vector<OpRec>& task_ops(int task) { return g_tasks[task].ops; }

void run_tasks(TaskBody body, void* arg)
{
    if (g_ntasks == 1)
    {
        TaskState* saved = tls_task;
        tls_task = &g_tasks[0];
        g_tasks[0].started = true;
        body(0, arg);
        g_tasks[0].done = true;
        tls_task = saved;
        return;
    }
    ensure_pool(g_ntasks);
    g_body = body; g_body_arg = arg;
    if (__tsan_release) __tsan_release(&g_phase_token);
    // first task is chosen by the schedule as well
    int first = 0;
    if (g_sched_pos < g_schedule.size()) first = g_schedule[g_sched_pos++] % g_ntasks;
    give(first);
    park_until(-1);
    if (__tsan_acquire) __tsan_acquire(&g_phase_token);
}

const std::vector<Event>& events() { return g_events; }
uint64_t run_hash() { return g_hash; }
uint32_t seq_now() { return g_seq; }
int64_t switches_done() { return g_switches; }
uint64_t interleaving_sig() { return g_ilv_sig; }
int64_t overlap_switches() { return g_overlap; }
int64_t same_parser_overlap() { return g_same_parser; }
void set_current_parser(const void* p) { if (tls_task) tls_task->cur_parser = p; }

// A switch point. Called with the runtime guard held, from the running task.
static void maybe_switch(uint8_t kind)
{
    if (g_ntasks <= 1) return;
    TaskState* me = tls_task;
    if (!me) return;
    if (g_sched_pos >= g_schedule.size()) return;
    uint8_t e = g_schedule[g_sched_pos++];
    if (e == 0) return;
    int next = pick_next_runnable(me->id, e - 1);
    if (next < 0) return;
    // reach probes
    ++g_switches;
    g_ilv_sig = mix(g_ilv_sig, (uint64_t(me->id) << 16) | (uint64_t(kind) << 8) | uint64_t(next));
    bool me_in = me->cur_op >= 0 && me->ops[me->cur_op].in_call;
    TaskState& nx = g_tasks[next];
    bool nx_in = nx.cur_op >= 0 && nx.ops[nx.cur_op].in_call;
    if (me_in) ++g_overlap;
    if (me_in && nx_in && me->cur_parser && me->cur_parser == nx.cur_parser) ++g_same_parser;
    g_hash = mix(g_hash, 0xABCD0000ull | (uint64_t(me->id) << 8) | uint64_t(next));
    if (g_record)
        g_events.push_back(Event{ g_seq, uint8_t(me->id), K_SWITCH, uint16_t(me->cur_op < 0 ? 0 : me->cur_op), next, kind });
    ++g_seq;
    give(next);
    park_until(me->id);
}

static void log_event(uint8_t kind, int64_t a, int64_t b)
{
    TaskState* t = tls_task;
    int tid = t ? t->id : 0;
    int op = (t && t->cur_op >= 0) ? t->cur_op : 0;
    g_hash = mix(g_hash, (uint64_t(tid) << 56) ^ (uint64_t(kind) << 48) ^ (uint64_t(op) << 40) ^ uint64_t(a));
    g_hash = mix(g_hash, uint64_t(b));
    if (g_record)
        g_events.push_back(Event{ g_seq, uint8_t(tid), kind, uint16_t(op), a, b });
    ++g_seq;
    maybe_switch(kind);
}

// ---------------------------------------------------------------------------------------------
int cur_task() { return tls_task ? tls_task->id : 0; }

OpRec* cur()
{
    TaskState* t = tls_task;
    if (!t || t->cur_op < 0) return nullptr;
    return &t->ops[t->cur_op];
}

void set_buffer(const char* base, int64_t len) { OpRec* o = cur(); if (o) { o->buf_base = base; o->buf_len = len; } }
void set_ctx(const void* addr) { OpRec* o = cur(); if (o) o->ctx_addr = addr; }

void begin_op(int op_index)
{
    RtGuard g;
    TaskState* t = tls_task;
    if (t->cur_op >= 0 && t->cur_op != op_index && !t->ops[t->cur_op].in_call) t->ops[t->cur_op].live_after = int64_t(t->live.size());
    t->cur_op = op_index;
    OpRec& o = t->ops[op_index];
    o.ev_begin = uint32_t(g_events.size());
    o.in_call = true;
    log_event(K_CALL, op_index, 0);
}

void end_op()
{
    RtGuard g;
    OpRec* o = cur();
    if (!o || !o->in_call) return;
    o->in_call = false;
    log_event(K_RET, o->op, 0);
    o->ev_end = uint32_t(g_events.size());
}

static void check_rd_budget(OpRec* o)
{
    if (o->rd_budget >= 0 && o->rds + o->advs > o->rd_budget && !o->budget_hit)
    {
        o->budget_hit = true;
        log_event(K_BUDGET, 1, o->rds);
        throw BudgetExceeded{1};
    }
    if (o->budget_hit) throw BudgetExceeded{1};
}

char rd(int64_t pos)
{
    RtGuard g;
    OpRec* o = cur();
    if (!o) return 0;
    ++o->rds;
    if (pos < 0 || pos >= o->buf_len)
    {
        ++o->oob_read;
        log_event(K_OOB_READ, pos, o->buf_len);
        check_rd_budget(o);
        return 0;
    }
    if (pos > o->maxrd) o->maxrd = pos;
    char c = o->buf_base[pos];
    log_event(K_RD, pos, (unsigned char)c);
    check_rd_budget(o);
    return c;
}

void adv(int64_t from, int64_t to)
{
    RtGuard g;
    OpRec* o = cur();
    if (!o) return;
    ++o->advs;
    if (to < 0 || to > o->buf_len)
    {
        ++o->oob_iter;
        log_event(K_OOB_ITER, from, to);
    }
    else
        log_event(K_ADV, from, to);
    check_rd_budget(o);
}

bool view(int64_t a, int64_t b)
{
    RtGuard g;
    OpRec* o = cur();
    if (!o) return false;
    if (a < 0 || b < a || b > o->buf_len)
    {
        ++o->oob_view;
        log_event(K_OOB_VIEW, a, b);
        return false;
    }
    log_event(K_VIEW, a, b);
    return true;
}

int64_t ptr_pos(const char* p)
{
    OpRec* o = cur();
    if (!o || !o->buf_base) return -1;
    return int64_t(p - o->buf_base);
}

int64_t wr(const char* p, int64_t n)
{
    RtGuard g;
    OpRec* o = cur();
    if (!o) return n;
    // switch point BEFORE the bytes are taken: a caller that formatted into shared scratch memory and only now hands
    // it over can be overtaken by another task between its formatting and this copy (visible without TSan)
    maybe_switch(K_WR);
    ++o->wr_events;
    if (o->first_wr_seq < 0 && n > 0)
    {
        o->first_wr_seq = g_seq;
        o->maxrd_at_first_wr = o->maxrd;
        o->reds_at_first_wr = int64_t(o->reds.size());
    }
    o->wr_attempted += n;
    int64_t accept = n;
    if (o->wr_quota >= 0)
    {
        int64_t room = o->wr_quota - int64_t(o->wrote.size());
        if (room < 0) room = 0;
        if (n > room)
        {
            accept = (o->wr_fail_mode == 1) ? 0 : room;
            o->wr_failed = true;
        }
    }
    if (accept > 0) o->wrote.append(p, size_t(accept));
    // the payload goes into the hash so that replay equality covers the text as well
    uint64_t ph = 0xcbf29ce484222325ull;
    for (int64_t i = 0; i < accept; ++i) { ph ^= (unsigned char)p[i]; ph *= 0x100000001b3ull; }
    log_event(accept == n ? K_WR : K_WRFAIL, accept, int64_t(ph & 0x7fffffffffffffffull));
    return accept;
}

void termf(int term, const char* p, int64_t len)
{
    RtGuard g;
    OpRec* o = cur();
    if (!o) return;
    int64_t off = o->buf_base ? int64_t(p - o->buf_base) : -1;
    o->termfs.push_back(OpRec::TermF{ term, off, len, g_seq });
    log_event(K_TERMF, (int64_t(term) << 32) | (off & 0xffffffff), len);
}

bool red(int rule, uint64_t digest, uint64_t sdigest, int ctx)
{
    RtGuard g;
    OpRec* o = cur();
    if (!o) return false;
    o->reds.push_back(OpRec::Red{ rule, digest, sdigest, ctx, g_seq });
    log_event(K_RED, (int64_t(rule) << 8) | ctx, int64_t(digest & 0x7fffffffffffffffull));
    if (o->nest_at >= 0 && !o->nest_fired && int64_t(o->reds.size()) - 1 == o->nest_at && g_nest_cb)
    {
        TaskState* t = tls_task;
        if (t->cur_op + 1 < int(t->ops.size()) && !t->ops[size_t(t->cur_op) + 1].in_call)
        {
            o->nest_fired = true;
            return true;
        }
    }
    return false;
}

void set_nest_callback(void (*cb)(void*, int task, int op), void* arg) { g_nest_cb = cb; g_nest_arg = arg; }

// a functor of the current call makes the task's next call itself (same thread, the outer call still on the stack)
void run_nested()
{
    TaskState* t = tls_task;
    if (!t || !g_nest_cb) return;
    int outer = t->cur_op;
    size_t live0;
    { RtGuard g; live0 = t->live.size(); t->ops[size_t(outer) + 1].ran_nested = true; }
    g_nest_cb(g_nest_arg, t->id, outer + 1);
    {
        RtGuard g;
        t->ops[size_t(outer) + 1].live_after = int64_t(t->live.size()) - int64_t(live0);
        t->cur_op = outer;
    }
}

void ctx_touch(const void* addr)
{
    RtGuard g;
    OpRec* o = cur();
    if (!o) return;
    ++o->ctx_touches;
    bool foreign = (o->ctx_addr != nullptr && addr != o->ctx_addr);
    if (foreign) ++o->ctx_foreign;
    log_event(K_CTX, foreign ? 1 : 0, 0);
}

void lexer_state_clobbered()
{
    RtGuard g;
    if (OpRec* o = cur()) ++o->lexer_state_clobbered;
}

LexAnswer lex(int64_t pos, int line, int col, bool verbose, int64_t end_pos, int64_t inst_calls, int64_t inst_last)
{
    RtGuard g;
    OpRec* o = cur();
    LexAnswer ans{ pos, -1, 0 };
    if (!o) return ans;
    int64_t call = o->lex_calls++;
    if (call == o->lex_fail_call)
        o->lex_fault_fired = true;
    else
        for (const LexAnswer& a : o->script)
            if (a.pos == pos)
            {
                if (a.idx >= 0 && a.len >= 1 && pos + a.len <= o->buf_len) ans = a;
                break;
            }
    o->lexes.push_back(OpRec::Lex{ pos, line, col, ans.idx, ans.len, g_seq, verbose ? 1 : 0, end_pos, inst_calls, inst_last });
    log_event(K_LEX, pos, (int64_t(ans.idx) << 32) | (ans.len & 0xffffffff));
    return ans;
}

void step(bool stacks_ok)
{
    RtGuard g;
    OpRec* o = cur();
    if (!o || !o->in_call) return;
    ++o->steps;
    if (!stacks_ok)
    {
        ++o->bounds_bad;
        log_event(K_BOUNDS, o->steps, 0);
    }
    else
        log_event(K_STEP, o->steps, 0);
    if (o->step_budget >= 0 && o->steps > o->step_budget)
    {
        if (!o->budget_hit) { o->budget_hit = true; log_event(K_BUDGET, 0, o->steps); }
        throw BudgetExceeded{0};
    }
}

void lstep(bool state_ok)
{
    RtGuard g;
    OpRec* o = cur();
    if (!o || !o->in_call) return;
    ++o->lsteps;
    if (!state_ok)
    {
        ++o->bounds_bad;
        log_event(K_BOUNDS, o->lsteps, 1);
    }
    else
        log_event(K_LSTEP, o->lsteps, 0);
    if (o->rd_budget >= 0 && o->lsteps > o->rd_budget)
    {
        if (!o->budget_hit) { o->budget_hit = true; log_event(K_BUDGET, 2, o->lsteps); }
        throw BudgetExceeded{2};
    }
}

// ---------------------------------------------------------------------------------------------
// value ledger
static OpRec* ledger_op()
{
    TaskState* t = tls_task;
    if (!t) return nullptr;
    if (t->cur_op >= 0) return &t->ops[t->cur_op];
    return nullptr;
}

uint32_t node_new(const void* addr)
{
    RtGuard g;
    TaskState* t = tls_task; OpRec* o = ledger_op();
    if (!t || !o) return 0;
    uint32_t vid = uint32_t(t->vals.size());
    t->vals.emplace_back();
    auto ins = t->live.emplace(addr, vid);
    if (!ins.second) { ++o->ctor_over_live; ins.first->second = vid; log_event(K_LEDGER_BAD, 1, vid); }
    ++o->n_new;
    log_event(K_NEW, vid, 0);
    return vid;
}

uint32_t node_copy(const void* addr, uint32_t src_vid)
{
    RtGuard g;
    TaskState* t = tls_task; OpRec* o = ledger_op();
    if (!t || !o) return 0;
    uint32_t vid = uint32_t(t->vals.size());
    t->vals.emplace_back();
    auto ins = t->live.emplace(addr, vid);
    if (!ins.second) { ++o->ctor_over_live; ins.first->second = vid; log_event(K_LEDGER_BAD, 1, vid); }
    ++o->n_copy;
    if (o->in_call && o->own_copy_depth == 0) ++o->copy_in_lib;
    log_event(K_COPY, vid, src_vid);
    return vid;
}

void node_move(const void* addr, uint32_t vid)
{
    RtGuard g;
    TaskState* t = tls_task; OpRec* o = ledger_op();
    if (!t || !o) return;
    auto ins = t->live.emplace(addr, vid);
    if (!ins.second) { ++o->ctor_over_live; ins.first->second = vid; log_event(K_LEDGER_BAD, 1, vid); }
    ++o->n_move;
    log_event(K_MOVE, vid, 0);
}

void node_assign_over(const void* addr, uint32_t old_vid, bool held_value)
{
    RtGuard g;
    TaskState* t = tls_task; OpRec* o = ledger_op();
    if (!t || !o) return;
    auto it = t->live.find(addr);
    if (it == t->live.end()) { ++o->use_dead; log_event(K_LEDGER_BAD, 4, old_vid); }
    else t->live.erase(it);
    if (held_value && old_vid < t->vals.size()) ++t->vals[old_vid].destroyed;
}

void node_del(const void* addr, uint32_t vid, bool holds_value)
{
    RtGuard g;
    TaskState* t = tls_task; OpRec* o = ledger_op();
    if (!t || !o) return;
    auto it = t->live.find(addr);
    if (it == t->live.end())
    {
        ++o->double_del;
        log_event(K_LEDGER_BAD, 2, vid);
    }
    else
        t->live.erase(it);
    if (holds_value && vid < t->vals.size())
    {
        if (++t->vals[vid].destroyed > 1) { ++o->double_del; log_event(K_LEDGER_BAD, 3, vid); }
    }
    ++o->n_del;
    log_event(K_DEL, vid, holds_value);
}

void node_use(uint32_t vid, bool moved_from)
{
    RtGuard g;
    TaskState* t = tls_task; OpRec* o = ledger_op();
    if (!t || !o) return;
    ++o->n_use;
    if (moved_from) { ++o->use_moved_from; log_event(K_LEDGER_BAD, 5, vid); }
    else if (vid < t->vals.size())
    {
        if (t->vals[vid].used) { ++o->use_twice; log_event(K_LEDGER_BAD, 6, vid); }
        if (t->vals[vid].destroyed) { ++o->use_dead; log_event(K_LEDGER_BAD, 7, vid); }
        t->vals[vid].used = true;
    }
    log_event(K_USE, vid, moved_from);
}

void node_read(uint32_t vid)
{
    RtGuard g;
    TaskState* t = tls_task; OpRec* o = ledger_op();
    if (!t || !o) return;
    if (vid < t->vals.size() && t->vals[vid].destroyed) { ++o->use_dead; log_event(K_LEDGER_BAD, 7, vid); }
}

void trivial_copy()
{
    RtGuard g;
    OpRec* o = ledger_op();
    if (!o) return;
    ++o->n_copy;
    if (o->in_call && o->own_copy_depth == 0) ++o->copy_in_lib;
    log_event(K_COPY, 0, 0);
}

void node_lvalue_arg(uint32_t vid)
{
    RtGuard g;
    OpRec* o = ledger_op();
    if (!o) return;
    ++o->arg_lvalue;
    log_event(K_LEDGER_BAD, 8, vid);
}

void set_alloc_tracking(bool) {}
void functor_mutable() { OpRec* o = cur(); if (o) ++o->mutable_functor_calls; }
void functor_owner(int owner) { OpRec* o = cur(); if (o && owner != o->expected_owner) ++o->foreign_functor_calls; }
void set_expected_owner(int owner) { OpRec* o = cur(); if (o) o->expected_owner = owner; }
void own_copies(int delta) { OpRec* o = cur(); if (o) o->own_copy_depth += delta; }
int64_t copies_so_far() { OpRec* o = cur(); return o ? o->n_copy : 0; }
void functor_enter() { OpRec* o = cur(); if (o) ++o->functor_depth; }
void functor_leave() { OpRec* o = cur(); if (o && o->functor_depth > 0) --o->functor_depth; }
int64_t task_live(int task) { return int64_t(g_tasks[task].live.size()); }

// called by the replaced global operator new (below)
static bool alloc_hook(size_t n)
{
    if (tls_in_rt) return true;
    TaskState* t = tls_task;
    if (!t || t->cur_op < 0) return true;
    OpRec& o = t->ops[t->cur_op];
    if (!o.in_call) return true;
    RtGuard g;
    int64_t idx = o.allocs++;
    if (idx == o.alloc_fail_at)
    {
        o.alloc_fault_fired = true;
        if (o.functor_depth > 0) o.alloc_fault_in_functor = true;
        log_event(K_ALLOCFAIL, idx, int64_t(n));
        return false;
    }
    log_event(K_ALLOC, idx, int64_t(n));
    return true;
}

}  // namespace simrt

// ---------------------------------------------------------------------------------------------
// hooks declared by ctpg.hpp under CTPG_VERIF
namespace ctpg_verif
{
    void on_step(bool stacks_ok) { simrt::step(stacks_ok); }
    void on_lex_step(bool state_ok) { simrt::lstep(state_ok); }
}

// ---------------------------------------------------------------------------------------------
// allocator seam: replaced global operator new/delete (not in the tsan flavour: its runtime owns them,
// and allocation faults are exercised by the plain and asan flavours)
#ifndef SIM_NO_ALLOC_SEAM
void* operator new(std::size_t n)
{
    if (!simrt::alloc_hook(n)) throw std::bad_alloc();
    void* p = std::malloc(n ? n : 1);
    if (!p) throw std::bad_alloc();
    return p;
}
void* operator new[](std::size_t n) { return operator new(n); }
void* operator new(std::size_t n, const std::nothrow_t&) noexcept
{
    if (!simrt::alloc_hook(n)) return nullptr;
    return std::malloc(n ? n : 1);
}
void* operator new[](std::size_t n, const std::nothrow_t& t) noexcept { return operator new(n, t); }
void operator delete(void* p) noexcept { std::free(p); }
void operator delete[](void* p) noexcept { std::free(p); }
void operator delete(void* p, std::size_t) noexcept { std::free(p); }
void operator delete[](void* p, std::size_t) noexcept { std::free(p); }
#endif
