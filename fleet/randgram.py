# Seeded random small LR(1) grammars (the "programs" axis of C09/C06/C16, thorough tier; DESIGN 5).
#
# generate(seed, k) -> { 'X<seed>_<i>': spec }   in the format of specs.FLEET
#
# A candidate is kept only if it is reduced (every nonterminal reachable and productive), has no conflict in the
# canonical LR(1) construction below (the library documents LR(1) grammars as its domain; precedence is not used here)
# and stays small enough to compile quickly. No error rules: these grammars serve the properties that are about
# acceptance, the first error, memory safety and the trace.
import random

from specs import T


def _first_sets(nn, rules):
    nullable = [False] * nn
    first = [set() for _ in range(nn)]
    changed = True
    while changed:
        changed = False
        for lhs, rhs in rules:
            allnull = True
            for (is_t, i) in rhs:
                if is_t:
                    if i not in first[lhs]:
                        first[lhs].add(i); changed = True
                    allnull = False
                    break
                add = first[i] - first[lhs]
                if add:
                    first[lhs] |= add; changed = True
                if not nullable[i]:
                    allnull = False
                    break
            if allnull and not nullable[lhs]:
                nullable[lhs] = True; changed = True
    return nullable, first


def lr1_conflict_free(nt_count, t_count, rules, root, max_states=70):
    """canonical LR(1); returns number of states, or 0 when there is a conflict or the automaton is too large"""
    EOF = t_count
    aug = list(rules) + [(nt_count, [(False, root)])]
    nullable, first = _first_sets(nt_count + 1, aug)
    by_lhs = {}
    for ri, (lhs, _) in enumerate(aug):
        by_lhs.setdefault(lhs, []).append(ri)

    def first_of(seq, la):
        out = set()
        for (is_t, i) in seq:
            if is_t:
                out.add(i)
                return out
            out |= first[i]
            if not nullable[i]:
                return out
        out.add(la)
        return out

    def closure(items):
        items = set(items)
        todo = list(items)
        while todo:
            ri, dot, la = todo.pop()
            rhs = aug[ri][1]
            if dot < len(rhs) and not rhs[dot][0]:
                for la2 in first_of(rhs[dot + 1:], la):
                    for r2 in by_lhs.get(rhs[dot][1], []):
                        it = (r2, 0, la2)
                        if it not in items:
                            items.add(it); todo.append(it)
        return frozenset(items)

    start = closure([(len(aug) - 1, 0, EOF)])
    states = {start: 0}
    todo = [start]
    while todo:
        st = todo.pop()
        shifts = {}
        reduces = {}
        for (ri, dot, la) in st:
            rhs = aug[ri][1]
            if dot < len(rhs):
                shifts.setdefault(rhs[dot], set()).add((ri, dot + 1, la))
            else:
                if la in reduces and reduces[la] != ri:
                    return 0                          # reduce/reduce
                reduces[la] = ri
        for sym in shifts:
            if sym[0] and sym[1] in reduces:
                return 0                              # shift/reduce
        for sym, kern in shifts.items():
            nx = closure(kern)
            if nx not in states:
                states[nx] = len(states)
                if len(states) > max_states:
                    return 0
                todo.append(nx)
    return len(states)


def _reduced(nt_count, rules, root):
    productive = [False] * nt_count
    changed = True
    while changed:
        changed = False
        for lhs, rhs in rules:
            if not productive[lhs] and all(is_t or productive[i] for (is_t, i) in rhs):
                productive[lhs] = True; changed = True
    if not all(productive):
        return False
    reach = {root}
    todo = [root]
    while todo:
        n = todo.pop()
        for lhs, rhs in rules:
            if lhs == n:
                for (is_t, i) in rhs:
                    if not is_t and i not in reach:
                        reach.add(i); todo.append(i)
    return len(reach) == nt_count


def _candidate(rng):
    nt = rng.randint(2, 6)
    tc = rng.randint(2, 5)
    nrules = rng.randint(nt + 1, nt + 7)
    lens = [0, 1, 1, 2, 2, 2, 3, 3, 3, 4]
    # swarm: some grammars have all right sides of one (maximal) length, some are nullable-heavy, some term-heavy
    style = rng.choice(['mixed', 'mixed', 'maxlen', 'nullable', 'termheavy', 'chains', 'cycle', 'cycle'])
    p_term = {'mixed': 50, 'maxlen': 50, 'nullable': 30, 'termheavy': 70, 'chains': 35, 'cycle': 55}[style]
    rules = []
    for i in range(nrules):
        lhs = i if i < nt else rng.randrange(nt)
        if style == 'maxlen':
            n = rng.choice([2, 2, 3])
        elif style == 'nullable':
            n = rng.choice([0, 0, 1, 2, 2, 3])
        elif style == 'chains':
            n = rng.choice([1, 1, 1, 2, 2, 3])
        else:
            n = rng.choice(lens)
        rhs = []
        for _ in range(n):
            if rng.randrange(100) < p_term:
                rhs.append((True, rng.randrange(tc)))
            else:
                rhs.append((False, rng.randrange(nt)))
        rules.append((lhs, rhs))
    if style == 'cycle' and nt >= 3:
        # nonterminals that refer to each other on the LEFT (A -> B x | a, B -> A y | b): first/nullable are fixed points
        k = rng.randint(2, min(3, nt - 1))
        cyc = rng.sample(range(1, nt), k)
        for j, a in enumerate(cyc):
            b = cyc[(j + 1) % k]
            tail = [(True, rng.randrange(tc))] if rng.randrange(4) else [(False, rng.randrange(nt))]
            rules.append((a, [(False, b)] + tail))
            rules.append((a, [(True, rng.randrange(tc))] if rng.randrange(5) else []))
    rng.shuffle(rules)          # declaration order unrelated to nterms(...)
    if len(set((l, tuple(r)) for l, r in rules)) != len(rules):
        return None
    return nt, tc, rules


def generate(seed, k):
    rng = random.Random(0x5eed0000 + seed)
    out = {}
    tries = 0
    letters = 'abcdefg'
    while len(out) < k and tries < 200000:
        tries += 1
        c = _candidate(rng)
        if not c:
            continue
        nt, tc, rules = c
        root = 0
        if not _reduced(nt, rules, root):
            continue
        used_terms = set(i for _, rhs in rules for (is_t, i) in rhs if is_t)
        if len(used_terms) != tc:
            continue
        if max(len(r) for _, r in rules) < 2:
            continue
        ns = lr1_conflict_free(nt, tc, rules, root)
        if ns < 5:
            continue
        typed = rng.randrange(tc)
        terms = []
        for i in range(tc):
            if i == 0 and rng.randrange(3) == 0:
                terms.append(('t0', T('regex', '[0-9]+', 'num', typed=(typed == 0))))
            else:
                terms.append(('t%d' % i, T('char', letters[i], typed=(typed == i))))
        nterms = ['N%d' % i for i in range(nt)]
        ctx_rule = rng.randrange(len(rules))
        rl = []
        for ri, (lhs, rhs) in enumerate(rules):
            syms = [('t%d' % i) if is_t else ('N%d' % i) for (is_t, i) in rhs]
            rl.append((nterms[lhs], syms, 'ctx' if ri == ctx_rule else 'plain'))
        out['X%d_%d' % (seed, len(out))] = dict(terms=terms, nterms=nterms, root=nterms[root], rules=rl, values=['node'], random=True, canonical_states=ns)
    return out
