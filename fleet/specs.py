# Fleet grammar specifications (DESIGN 5): single source for the generated ctpg grammars and the
# reference model's tables.
#
# term:  dict(kind='char'|'string'|'regex'|'custom', data=..., name=<display name per README>,
#             prec=0, assoc='none'|'ltor'|'rtol', typed=False)
# rule:  (lhs, [rhs symbols], ftor)  ftor in 'plain' | 'ctx' | 'default', optionally (lhs, rhs, ftor, prec)
#        rhs symbols are term ids (keys of terms), nterm names, or 'error'
# Rules are deliberately NOT grouped by left side: user rule numbers and the library's internal sorted
# indices differ.

def T(kind, data, name=None, prec=0, assoc='none', typed=False):
    unnamed = False
    if name is None:
        if kind == 'char':
            c = data
            name = c if 32 < ord(c) < 127 else '\\x%02X' % ord(c)
        elif kind == 'string':
            name = data
        elif kind == 'regex':
            name = 'r_' + data
            unnamed = True
        else:
            raise ValueError('custom terms need a name')
    return dict(kind=kind, data=data, name=name, prec=prec, assoc=assoc, typed=typed, unnamed=unnamed)

FLEET = {}

FLEET['G1'] = dict(
    terms=[
        ('num', T('regex', '[0-9]+', 'num')),
        ('plus', T('char', '+', prec=1, assoc='ltor')),
        ('minus', T('char', '-', prec=1, assoc='ltor')),
        ('mul', T('char', '*', prec=2, assoc='ltor')),
        ('div', T('char', '/', prec=2, assoc='ltor')),
        ('semi', T('char', ';')),
        ('lp', T('char', '(')),
        ('rp', T('char', ')')),
    ],
    nterms=['exprs', 'expr'],
    root='exprs',
    rules=[
        ('expr', ['num'], 'plain'),
        ('exprs', [], 'plain'),
        ('expr', ['expr', 'plus', 'expr'], 'plain'),
        ('exprs', ['exprs', 'expr', 'semi'], 'plain'),
        ('expr', ['expr', 'mul', 'expr'], 'plain'),
        ('exprs', ['exprs', 'error', 'semi'], 'plain'),
        ('expr', ['minus', 'expr'], 'plain', 3),
        ('expr', ['expr', 'minus', 'expr'], 'plain'),
        ('expr', ['lp', 'expr', 'rp'], 'plain'),
        ('expr', ['expr', 'div', 'expr'], 'ctx'),
    ],
    values=['node', 'mnode', 'inode'],
)

FLEET['G2'] = dict(
    terms=[
        ('id', T('regex', '[a-z][a-z0-9]*')),      # UNNAMED: its display name is r_<pattern>
        ('plus', T('char', '+')),
        ('mul', T('char', '*')),
        ('lp', T('char', '(')),
        ('rp', T('char', ')')),
    ],
    nterms=['E', 'T', 'F'],
    root='E',
    rules=[
        ('F', ['id'], 'plain'),
        ('E', ['E', 'plus', 'T'], 'plain'),
        ('T', ['F'], 'default'),
        ('F', ['lp', 'E', 'rp'], 'ctx'),
        ('E', ['T'], 'default'),
        ('T', ['T', 'mul', 'F'], 'plain'),
    ],
    values=['node', 'mnode', 'pnode', 'xnode'],
)

FLEET['G3'] = dict(
    terms=[
        ('x', T('char', 'x')),
        ('z', T('char', 'z')),
    ],
    nterms=['S', 'E'],
    root='S',
    rules=[
        ('S', ['E', 'x', 'S'], 'plain'),
        ('E', [], 'plain'),
        ('S', [], 'default'),
        ('E', ['z'], 'plain'),
    ],
    values=['node', 'pnode'],
)

FLEET['G4'] = dict(
    terms=[
        ('str', T('regex', '"[^"]*"', 'str', typed=True)),
        ('num', T('regex', '-?[0-9]+', 'num', typed=True)),
        ('true', T('string', 'true')),
        ('false', T('string', 'false')),
        ('null', T('string', 'null')),
        ('lb', T('char', '{')),
        ('rb', T('char', '}')),
        ('ls', T('char', '[')),
        ('rs', T('char', ']')),
        ('comma', T('char', ',')),
        ('colon', T('char', ':')),
    ],
    nterms=['value', 'obj', 'members', 'pair', 'arr', 'elems'],
    root='value',
    rules=[
        ('value', ['obj'], 'default'),
        ('elems', ['value'], 'plain'),
        ('value', ['arr'], 'default'),
        ('obj', ['lb', 'members', 'rb'], 'plain'),
        ('value', ['str'], 'plain'),
        ('pair', ['str', 'colon', 'value'], 'ctx'),
        ('value', ['num'], 'plain'),
        ('obj', ['lb', 'rb'], 'plain'),
        ('value', ['true'], 'plain'),
        ('members', ['pair'], 'plain'),
        ('value', ['false'], 'plain'),
        ('arr', ['ls', 'elems', 'rs'], 'plain'),
        ('value', ['null'], 'plain'),
        ('members', ['members', 'comma', 'pair'], 'plain'),
        ('arr', ['ls', 'rs'], 'plain'),
        ('elems', ['elems', 'comma', 'value'], 'plain'),
    ],
    values=['node', 'mnode'],
)

# (long descriptive nonterminal names: the printed form of the if-rule is > 250 characters)
FLEET['G5'] = dict(
    terms=[
        ('kw_if', T('string', 'if')),
        ('kw_else', T('string', 'else')),
        ('kw_while', T('string', 'while')),
        ('id', T('regex', '[a-zA-Z_][a-zA-Z_0-9]*', 'id', typed=True)),
        ('num', T('regex', '[0-9]+', 'num')),
        ('assign', T('char', '=')),
        ('eq', T('string', '==')),
        ('lp', T('char', '(')),
        ('rp', T('char', ')')),
        ('lb', T('char', '{')),
        ('rb', T('char', '}')),
        ('semi', T('char', ';')),
    ],
    nterms=['translation_unit_of_the_little_language', 'sequence_of_statements_possibly_empty', 'one_statement_of_the_little_language', 'brace_enclosed_block_of_statements', 'expression_with_optional_comparison', 'atomic_operand_of_an_expression'],
    root='translation_unit_of_the_little_language',
    rules=[
        ('atomic_operand_of_an_expression', ['id'], 'plain'),
        ('translation_unit_of_the_little_language', ['sequence_of_statements_possibly_empty'], 'default'),
        ('one_statement_of_the_little_language', ['id', 'assign', 'expression_with_optional_comparison', 'semi'], 'plain'),
        ('sequence_of_statements_possibly_empty', [], 'plain'),
        ('atomic_operand_of_an_expression', ['num'], 'plain'),
        ('one_statement_of_the_little_language', ['kw_if', 'lp', 'expression_with_optional_comparison', 'rp', 'brace_enclosed_block_of_statements', 'kw_else', 'brace_enclosed_block_of_statements'], 'plain'),
        ('expression_with_optional_comparison', ['atomic_operand_of_an_expression'], 'default'),
        ('sequence_of_statements_possibly_empty', ['sequence_of_statements_possibly_empty', 'one_statement_of_the_little_language'], 'plain'),
        ('one_statement_of_the_little_language', ['kw_while', 'lp', 'expression_with_optional_comparison', 'rp', 'brace_enclosed_block_of_statements'], 'ctx'),
        ('brace_enclosed_block_of_statements', ['lb', 'sequence_of_statements_possibly_empty', 'rb'], 'plain'),
        ('expression_with_optional_comparison', ['atomic_operand_of_an_expression', 'eq', 'atomic_operand_of_an_expression'], 'plain'),
        ('one_statement_of_the_little_language', ['brace_enclosed_block_of_statements'], 'default'),
        ('atomic_operand_of_an_expression', ['lp', 'expression_with_optional_comparison', 'rp'], 'plain'),
    ],
    values=['node'],
)

FLEET['G6'] = dict(
    custom_lexer=True,
    terms=[
        # long names sharing a 15-character prefix: terms are told apart by their full names
        ('item', T('custom', '', 'custom_lexeme_t_item', typed=True)),
        ('sep', T('custom', '', 'custom_lexeme_t_separator', typed='sv')),       # functor returning std::string_view itself
        ('open', T('custom', '', 'custom_lexeme_t_bracket_of_kindo', typed=True)),      # exactly 32 characters, and ...
        ('close', T('custom', '', 'custom_lexeme_t_bracket_of_kindc', typed=True)),     # ... differing from its sibling in the LAST one only
        ('end', T('custom', '', 'custom_lexeme_t_end', typed=True)),
    ],
    nterms=['list', 'elem'],
    root='list',
    rules=[
        ('elem', ['item'], 'plain'),
        ('list', [], 'plain'),
        ('elem', ['elem', 'sep', 'item'], 'plain'),
        ('list', ['list', 'elem', 'end'], 'plain'),
        ('elem', ['open', 'elem', 'close'], 'ctx'),
        ('list', ['list', 'error', 'end'], 'plain'),
    ],
    values=['node', 'mnode'],
)

FLEET['G7'] = dict(
    terms=[
        ('id', T('regex', '[a-z]+', 'id')),
        ('assign', T('char', '=')),
        ('semi', T('char', ';')),
        ('lb', T('char', '{')),
        ('rb', T('char', '}')),
    ],
    nterms=['prog', 'items', 'item'],
    root='prog',
    rules=[
        ('item', ['id', 'assign', 'id', 'semi'], 'plain'),
        ('prog', ['items'], 'default'),
        ('item', ['error', 'semi'], 'plain'),
        ('items', [], 'plain'),
        ('item', ['lb', 'items', 'rb'], 'plain'),
        ('items', ['items', 'item'], 'plain'),
        ('item', ['id', 'semi'], 'ctx'),
        ('item', ['lb', 'items', 'error', 'rb'], 'plain'),
    ],
    values=['node', 'mnode', 'pnode'],
)

FLEET['G8'] = dict(
    terms=[
        ('a', T('char', 'a')),
        ('b', T('char', 'b')),
        ('c', T('char', 'c')),
        ('d', T('char', 'd')),
        ('e', T('char', 'e')),
    ],
    nterms=['S', 'A', 'B', 'A1', 'B1'],
    root='S',
    rules=[
        ('A1', ['c'], 'plain'),
        ('S', ['a', 'A', 'd'], 'plain'),
        ('B', ['B1'], 'default'),
        ('S', ['b', 'B', 'd'], 'plain'),
        ('B1', ['c'], 'plain'),
        ('S', ['a', 'B', 'e'], 'plain'),
        ('A', ['A1'], 'default'),
        ('S', ['b', 'A', 'e'], 'plain'),
    ],
    values=['node'],
)

FLEET['G9'] = dict(
    terms=[
        ('word', T('regex', '[a-z]+', 'word')),
        ('nl', T('char', '\n')),
        ('hash', T('char', '#')),
    ],
    nterms=['file', 'lines', 'line', 'words'],
    root='file',
    rules=[
        ('words', [], 'plain'),
        ('file', ['lines'], 'default'),
        ('line', ['words', 'nl'], 'plain'),
        ('lines', [], 'plain'),
        ('words', ['words', 'word'], 'plain'),
        ('lines', ['lines', 'line'], 'plain'),
        ('line', ['hash', 'words', 'nl'], 'plain'),
    ],
    values=['node'],
)

FLEET['T1'] = dict(
    terms=[
        ('x', T('char', 'x')),
        ('semi', T('char', ';')),
        ('y', T('char', 'y')),
    ],
    nterms=['root', 'list'],
    root='root',
    rules=[
        ('root', ['list', 'semi'], 'plain'),
        ('root', ['error', 'semi'], 'plain'),
        ('list', [], 'plain'),
        ('list', ['list', 'x'], 'plain'),
    ],
    values=['node', 'pnode'],
)


# overlapping-prefix terms: the generated lexer must look ahead and FALL BACK to a shorter match
# (1. -> num '.' ;  <<x -> '<' '<' id ;  ..a -> '.' '.' id)
FLEET['G10'] = dict(
    terms=[
        ('num', T('regex', '[0-9]+(\\.[0-9]+)?', 'num', typed=True)),
        ('dot', T('char', '.')),
        ('dots', T('string', '...')),
        ('lt', T('char', '<')),
        ('shl', T('string', '<<=')),
        ('id', T('regex', '[a-z]+', 'id')),
        ('abc', T('string', 'a-b-c')),
        ('minus', T('char', '-')),
    ],
    nterms=['list', 'item'],
    root='list',
    rules=[
        ('item', ['num'], 'plain'),
        ('list', [], 'plain'),
        ('item', ['dot', 'id'], 'plain'),
        ('item', ['dots'], 'plain'),
        ('list', ['list', 'item'], 'plain'),
        ('item', ['lt', 'num'], 'plain'),
        ('item', ['shl', 'id'], 'ctx'),
        ('item', ['id'], 'plain'),
        ('item', ['abc'], 'plain'),
        ('item', ['minus', 'num'], 'plain'),
    ],
    values=['node', 'mnode'],
)

# error symbol at the END of a rule: end of input is actionable right after the error symbol was shifted
FLEET['G11'] = dict(
    terms=[
        ('x', T('char', 'x')),
        ('semi', T('char', ';')),
        ('y', T('char', 'y')),
        ('lp', T('char', '(')),
        ('rp', T('char', ')')),
    ],
    nterms=['root', 'list', 'stmt'],
    root='root',
    rules=[
        ('stmt', ['x', 'semi'], 'plain'),
        ('root', ['list'], 'default'),
        ('stmt', ['error'], 'plain'),
        ('list', [], 'plain'),
        ('stmt', ['lp', 'list', 'rp'], 'plain'),
        ('list', ['list', 'stmt'], 'plain'),
        # prefix pair: after 'x' the state both reduces (also under the error symbol) and shifts;
        # an error after "x y" pops the y-state and exposes a state that REDUCES on the error symbol
        ('stmt', ['x'], 'plain'),
        ('stmt', ['x', 'y', 'semi'], 'ctx'),
    ],
    values=['node', 'mnode', 'pnode', 'xnode', 'inode'],
)


# whitespace characters as terms (meaningful with skip_whitespace(false)); names of non-printable character terms
FLEET['G12'] = dict(
    terms=[
        ('word', T('regex', '[a-z]+', 'word')),
        ('sp', T('char', ' ')),
        ('tab', T('char', '\t')),
        ('del', T('char', '\x7f')),
        ('bang', T('char', '!')),
        # pattern features not used elsewhere in the fleet: {n} repetition, '.', hex escape, optional group
        ('hex', T('regex', '#[0-9a-f]{2}', 'hex', typed=True)),
        ('at', T('regex', '@.(\\x2e.)?', 'at')),
        # alternatives whose first characters overlap only partly and that converge on the same tail
        ('digit', T('regex', '9[0-2]|[0-9]', 'digit')),
        # a second term with the SAME display name as 'word' (display names are debug names; ids differ)
        ('upper', T('regex', '[A-Z]+', 'word')),
    ],
    nterms=['text', 'item'],
    root='text',
    rules=[
        ('item', ['word'], 'plain'),
        ('text', ['item'], 'plain'),
        ('item', ['bang', 'word'], 'plain'),
        ('text', ['text', 'sp', 'item'], 'plain'),
        ('text', ['text', 'tab', 'item'], 'plain'),
        ('text', ['text', 'del', 'item'], 'ctx'),
        ('item', ['hex'], 'plain'),
        ('item', ['at', 'word'], 'plain'),
        ('item', ['digit'], 'plain'),
        ('item', ['upper'], 'plain'),
    ],
    values=['node'],
    prefer_no_skip_ws=True,
)


# error rules nested at two levels WITH a shift/reduce conflict on the error symbol: after '{' the state holds both
# block -> '{' . error '}' (shift) and stmts -> . (reduce, lookahead error); the documented default (equal precedence,
# no associativity) prefers the shift
FLEET['G13'] = dict(
    terms=[
        ('x', T('char', 'x')),
        ('semi', T('char', ';')),
        ('lb', T('char', '{')),
        ('rb', T('char', '}')),
        ('y', T('char', 'y')),
    ],
    nterms=['prog', 'blocks', 'block', 'stmts', 'stmt'],
    root='prog',
    rules=[
        ('stmt', ['x', 'semi'], 'plain'),
        ('prog', ['blocks'], 'default'),
        ('block', ['lb', 'stmts', 'rb'], 'plain'),
        ('stmts', [], 'plain'),
        ('blocks', [], 'plain'),
        ('block', ['lb', 'error', 'rb'], 'plain'),
        ('stmts', ['stmts', 'stmt'], 'plain'),
        ('blocks', ['blocks', 'block'], 'plain'),
        ('stmt', ['error', 'semi'], 'ctx'),
    ],
    values=['node', 'mnode'],
)


# the library's helper functors on the value path: create<> / emplace_back<> build a std::vector of values, _e2 passes
# one through; a rule with the error symbol discards lists during recovery
FLEET['G14'] = dict(
    terms=[
        ('x', T('char', 'x')),
        ('lp', T('char', '(')),
        ('rp', T('char', ')')),
        ('ls', T('char', '[')),
        ('rs', T('char', ']')),
    ],
    nterms=['root', 'list', 'item'],
    list_nterms=['list'],
    root='root',
    rules=[
        ('item', ['x'], 'plain'),
        ('root', ['list'], 'plain'),
        ('list', [], 'create_list'),
        ('item', ['lp', 'item', 'rp'], 'e2'),
        ('list', ['list', 'item'], 'emplace_back'),
        ('item', ['ls', 'list', 'rs'], 'ctx'),
        ('item', ['ls', 'error', 'rs'], 'plain'),
    ],
    values=['node', 'mnode'],
)


# precedence and associativity without error rules: typed operator terms carrying precedence, a right-associative and a
# non-associative operator, an explicit rule precedence
FLEET['G15'] = dict(
    terms=[
        ('num', T('regex', '[0-9]+', 'num', typed=True)),
        ('plus', T('char', '+', prec=1, assoc='ltor', typed=True)),
        ('minus', T('char', '-', prec=1, assoc='ltor')),
        ('mul', T('char', '*', prec=2, assoc='ltor', typed=True)),
        ('pow', T('char', '^', prec=4, assoc='rtol')),
        ('lt', T('char', '<', prec=0)),
        ('lp', T('char', '(')),
        ('rp', T('char', ')')),
        ('comma', T('char', ',')),
        ('rel', T('regex', '>=|[>=!]=', 'rel', typed=True)),
    ],
    nterms=['list', 'expr'],
    root='list',
    rules=[
        ('expr', ['num'], 'plain'),
        ('list', ['expr'], 'plain'),
        ('expr', ['expr', 'plus', 'expr'], 'plain'),
        ('expr', ['expr', 'pow', 'expr'], 'plain'),
        ('list', ['list', 'comma', 'expr'], 'plain'),
        ('expr', ['minus', 'expr'], 'plain', 3),
        ('expr', ['expr', 'mul', 'expr'], 'ctx'),
        ('expr', ['expr', 'minus', 'expr'], 'plain'),
        ('expr', ['lp', 'expr', 'rp'], 'plain'),
        ('expr', ['expr', 'lt', 'expr'], 'plain'),
        ('expr', ['expr', 'rel', 'expr'], 'plain'),
    ],
    values=['node', 'mnode'],
)


# right recursion with an error alternative and NO empty rule: every character of a cstring_buffer literal keeps one
# state on the stack, and an error at end of input is shifted on top of all of them (the last fixed-capacity slot)
FLEET['G16'] = dict(
    terms=[
        ('x', T('char', 'x')),
        ('semi', T('char', ';')),
        ('y', T('char', 'y')),
    ],
    nterms=['S'],
    root='S',
    rules=[
        ('S', ['x', 'S'], 'plain'),
        ('S', ['semi'], 'plain'),
        ('S', ['error'], 'plain'),
        ('S', ['y', 'S'], 'ctx'),
    ],
    values=['node', 'pnode'],
)

# nonterminals that are nullable only TRANSITIVELY (body -> as bs, both nullable; body has no empty rule of its own)
# and follow another nonterminal: lookaheads must flow through them. Language: h a* b* t (';'-separated); mid -> body adds a second level
FLEET['G17'] = dict(
    terms=[
        ('h', T('char', 'h')),
        ('t', T('char', 't')),
        ('a', T('char', 'a', typed=True)),
        ('b', T('regex', 'b+', 'bs', typed=True)),
        ('semi', T('char', ';')),
    ],
    nterms=['prog', 'root', 'head', 'mid', 'body', 'as', 'bs', 'tail'],
    root='prog',
    rules=[
        ('as', [], 'plain'),
        ('root', ['head', 'mid', 'tail'], 'plain'),
        ('bs', [], 'plain'),
        ('body', ['as', 'bs'], 'plain'),
        ('head', ['h'], 'plain'),
        ('as', ['as', 'a'], 'plain'),
        ('tail', ['t'], 'ctx'),
        ('bs', ['bs', 'b'], 'plain'),
        ('prog', ['root'], 'default'),
        ('prog', ['prog', 'semi', 'root'], 'plain'),
        ('mid', ['body'], 'plain'),
    ],
    values=['node', 'mnode'],
)


# an error grammar whose rules are declared in an order unrelated to nterms(...): the error rule comes first, the root's
# empty rule in the middle; whatever the library precomputes per rule must not depend on declaration order
FLEET['G18'] = dict(
    terms=[
        ('x', T('regex', '[x-z]', 'name', typed=True)),
        ('semi', T('char', ';')),
        ('lp', T('char', '(')),
        ('rp', T('char', ')')),
        ('comma', T('char', ',')),
    ],
    nterms=['prog', 'stmt', 'args'],
    root='prog',
    rules=[
        ('stmt', ['error', 'semi'], 'ctx'),
        ('args', ['x'], 'plain'),
        ('stmt', ['x', 'semi'], 'plain'),
        ('prog', [], 'plain'),
        ('stmt', ['x', 'lp', 'args', 'rp', 'semi'], 'plain'),
        ('prog', ['prog', 'stmt'], 'plain'),
        ('args', ['args', 'comma', 'x'], 'plain'),
    ],
    values=['node', 'mnode', 'anode'],
)

# two items of one state share a closure item (A -> . a, y is reached from S -> . A y and from T -> . A y): whatever the
# library remembers about the closure of ONE item must be complete on its own, because the item reappears in another
# state (after 'q') without its sibling. Language: a y | a y w | q a y w
FLEET['G19'] = dict(
    terms=[
        ('a', T('char', 'a', typed=True)),
        ('y', T('char', 'y')),
        ('w', T('char', 'w')),
        ('q', T('char', 'q')),
    ],
    nterms=['S', 'T', 'A'],
    root='S',
    rules=[
        ('S', ['A', 'y'], 'plain'),
        ('S', ['T', 'w'], 'plain'),
        ('S', ['q', 'T', 'w'], 'ctx'),
        ('T', ['A', 'y'], 'plain'),
        ('A', ['a'], 'plain'),
    ],
    values=['node', 'mnode'],
)


# every right side has the maximal length, so "the rest of rule r after its last symbol" and "all of rule r+1" are
# neighbours in any per-(rule, position) table. Language: a b | d d c b
FLEET['G20'] = dict(
    terms=[
        ('a', T('char', 'a')),
        ('b', T('char', 'b', typed=True)),
        ('c', T('char', 'c')),
        ('d', T('char', 'd')),
    ],
    nterms=['S', 'B', 'D', 'E', 'C'],
    root='S',
    rules=[
        ('S', ['a', 'B'], 'plain'),
        ('B', ['b'], 'plain'),
        ('S', ['d', 'D'], 'plain'),
        ('D', ['d', 'E'], 'ctx'),
        ('E', ['C', 'B'], 'plain'),
        ('C', ['c'], 'plain'),
    ],
    values=['node', 'mnode'],
)

# terms WITHOUT a value, declared the way the readme recommends (typed_term(..., ftors::create<no_type>{})), in a grammar
# with error rules: the value variant then holds both no_type (the error symbol's value) and term_value<no_type>
FLEET['G21'] = dict(
    terms=[
        ('num', T('regex', '[0-9]+', 'num', typed='sv')),
        ('semi', T('char', ';', typed='no_type')),
        ('plus', T('char', '+', typed='no_type')),
    ],
    nterms=['list', 'item'],
    root='list',
    rules=[
        ('item', ['num'], 'plain'),
        ('list', [], 'plain'),
        ('list', ['list', 'item', 'semi'], 'plain'),
        ('item', ['item', 'plus', 'num'], 'ctx'),
        ('list', ['list', 'error', 'semi'], 'plain'),
    ],
    values=['node', 'mnode'],
)


# mutually LEFT-recursive nonterminals (A -> B x | a, B -> A y | b): FIRST(A) = FIRST(B) = {a, b} is a least fixed point
# that a single recursive pass with memoisation does not reach. Language: c (b|a)(x y)* | d (a|b) ... see rules
FLEET['G22'] = dict(
    terms=[
        ('a', T('char', 'a')),
        ('b', T('char', 'b', typed=True)),
        ('c', T('char', 'c')),
        ('d', T('char', 'd')),
        ('x', T('char', 'x')),
        ('y', T('char', 'y')),
    ],
    nterms=['S', 'C', 'D', 'A', 'B'],
    root='S',
    rules=[
        ('S', ['C', 'B'], 'plain'),
        ('S', ['D', 'A'], 'plain'),
        ('C', ['c'], 'plain'),
        ('D', ['d'], 'plain'),
        ('A', ['B', 'x'], 'plain'),
        ('A', ['a'], 'plain'),
        ('B', ['A', 'y'], 'ctx'),
        ('B', ['b'], 'plain'),
    ],
    values=['node', 'mnode'],
)


# the same for "can derive the empty string": A -> B z | (empty), B -> A C, C -> (empty); B is nullable only through A,
# which is still being evaluated when B is first asked. Language: z* t
FLEET['G23'] = dict(
    terms=[
        ('z', T('char', 'z', typed=True)),
        ('t', T('char', 't')),
    ],
    nterms=['S', 'A', 'B', 'C'],
    root='S',
    rules=[
        ('S', ['B', 't'], 'plain'),
        ('A', ['B', 'z'], 'plain'),
        ('A', [], 'plain'),
        ('B', ['A', 'C'], 'ctx'),
        ('C', [], 'plain'),
    ],
    values=['node'],
)

# the dangling else resolved by TERM precedence ("else" above "then"), binary operators by precedence/associativity,
# in a grammar whose rules are written statement-first although nterms(...) lists expr first: whatever is looked up per
# rule while conflicts are resolved must use the rule's own number, not its position after sorting. A conflict resolved
# the wrong way REJECTS valid sentences here (if a then if b then s else s else s)
FLEET['G24'] = dict(
    terms=[
        ('kif', T('string', 'if', prec=3)),      # a level on the FIRST term of the if-rules: a rule's implicit level is its LAST term's (S114)
        ('kthen', T('string', 'then', prec=1)),
        ('kelse', T('string', 'else', prec=2)),
        ('kprint', T('string', 'print')),
        ('plus', T('char', '+', prec=3, assoc='ltor')),
        ('mul', T('char', '*', prec=4, assoc='ltor')),
        ('num', T('regex', '[0-9]+', 'number', typed=True)),
    ],
    nterms=['expr', 'stmt'],
    root='stmt',
    rules=[
        ('stmt', ['kif', 'expr', 'kthen', 'stmt'], 'plain'),
        ('stmt', ['kif', 'expr', 'kthen', 'stmt', 'kelse', 'stmt'], 'ctx'),
        ('stmt', ['kprint', 'expr'], 'plain'),
        ('expr', ['expr', 'plus', 'expr'], 'plain'),
        ('expr', ['expr', 'mul', 'expr'], 'plain'),
        ('expr', ['num'], 'plain'),
    ],
    values=['node', 'mnode'],
)

# {n} repetition in regex terms that are NOT the first entry of terms(...), on a group and after a prefix: the copies
# of the repeated sub-automaton start at a state other than 0
FLEET['G25'] = dict(
    terms=[
        ('comma', T('char', ',')),
        ('word', T('regex', '(abc){2}', 'word', typed=True)),
        ('hex', T('regex', '0x[0-9a-f]{2}', 'hex', typed=True)),
        ('tri', T('regex', 'z{3}', 'tri')),
    ],
    nterms=['list', 'item'],
    root='list',
    rules=[
        ('item', ['word'], 'tokref'),      # (const Payload& t) -> const Payload&: the value is built from the reference
        ('list', ['item'], 'plain'),
        ('item', ['hex'], 'ctx'),
        ('list', ['list', 'comma', 'item'], 'plain'),
        ('item', ['tri'], 'plain'),
    ],
    values=['node'],
)

# regex shapes the library's automaton construction gets wrong (known finding F12, same root cause as F5): a loop over a
# superset followed by a subset ([0-9]*[05]) and a loop followed by its own symbol (a+a). ONLY in C09's list, where the
# deviation is classified as a known finding; every other property would judge it over the parser's own automaton anyway.
FLEET['G26'] = dict(
    terms=[
        ('fives', T('regex', '[0-9]*[05]', 'fives', typed=True)),
        ('aas', T('regex', 'a+a', 'aas')),
        ('comma', T('char', ',')),
    ],
    nterms=['list', 'item'],
    root='list',
    rules=[
        ('item', ['fives'], 'plain'),
        ('list', ['item'], 'plain'),
        ('item', ['aas'], 'plain'),
        ('list', ['list', 'comma', 'item'], 'plain'),
    ],
    values=['node'],
)

# custom terms that carry PRECEDENCE and associativity (custom_term(name, ftor, prec, assoc)): the shift/reduce
# conflicts of an operator grammar are decided by the custom terms' levels exactly as by built-in terms' levels (S104)
FLEET['G27'] = dict(
    custom_lexer=True,
    terms=[
        ('num', T('custom', '', 'operand', typed=True)),
        ('plus', T('custom', '', 'op_additive', prec=1, assoc='ltor', typed=True)),
        ('mul', T('custom', '', 'op_multiplicative', prec=2, assoc='ltor', typed=True)),
        ('pow', T('custom', '', 'op_power', prec=3, assoc='rtol', typed='sv')),
    ],
    # (two nonterminals, rules written expression-first although nterms(...) lists stmt first: per-rule data looked up while
    #  conflicts are resolved must use the rule's own number - S119)
    nterms=['stmt', 'expr'],
    root='stmt',
    rules=[
        ('expr', ['expr', 'plus', 'expr'], 'plain'),
        ('stmt', ['expr'], 'plain'),
        ('expr', ['num'], 'plain'),
        ('expr', ['expr', 'mul', 'expr'], 'ctx'),
        ('expr', ['expr', 'pow', 'expr'], 'plain'),
    ],
    values=['node', 'mnode'],
)

# an explicit rule precedence on a rule with a CONTEXT functor (rule[prec] >>= f), where the precedence decides a
# shift/reduce conflict that changes the LANGUAGE: amount -> '5' [2] beats shifting 'k' (level 1), so "5kg" is the only
# sentence; with the precedence lost, "5kg" is rejected and "5kkg" accepted (S107)
FLEET['G28'] = dict(
    terms=[
        ('five', T('char', '5', typed=True)),
        ('k', T('char', 'k', prec=1)),
        ('g', T('char', 'g')),
    ],
    nterms=['weight', 'amount'],
    root='weight',
    rules=[
        ('amount', ['five'], 'ctx', 2),
        ('weight', ['amount', 'k', 'g'], 'plain'),
        ('amount', ['five', 'k'], 'plain'),
    ],
    values=['node'],
)

# standalone regex matchers (regex::expr<P>)
REGEXES = {
    'R1': 'ab*c',
    'R2': '(a|b)*abb',
    'R3': '[0-9]+(\\.[0-9]+)?',
    'R4': 'x{3}y?',
    'R5': '[^a-c]+z',
    'R6': '(ab|cd)+e?',
    'R7': 'x(abc){2}',
}
