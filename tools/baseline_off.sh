#!/bin/sh
# Runs the repository's pinned test suite with the CTPG_VERIF guard OFF (nothing defines it).
set -e
REPO="${VERIF_REPO:-/repo}"
BUILD="${VERIF_BASELINE_BUILD:-$REPO/_build}"
if [ ! -f "$BUILD/build.ninja" ] && [ ! -f "$BUILD/Makefile" ]; then
  cmake -G Ninja -S "$REPO" -B "$BUILD" >/dev/null
fi
cmake --build "$BUILD"
ctest --test-dir "$BUILD" -j8 --timeout 900
