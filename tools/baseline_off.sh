#!/bin/sh
# Runs the repository's pinned test suite with the CTPG_VERIF guard OFF (nothing defines it).
set -e
REPO="${VERIF_REPO:-/repo}"
BUILD="${VERIF_BASELINE_BUILD:-$REPO/_build}"
if [ ! -f "$BUILD/build.ninja" ] && [ ! -f "$BUILD/Makefile" ]; then
  cmake -G Ninja -DCMAKE_BUILD_TYPE=RelWithDebInfo -DCMAKE_CXX_FLAGS=-Wno-error -S "$REPO" -B "$BUILD" >/dev/null
fi
cmake --build "$BUILD"
ctest --test-dir "$BUILD" -j8 --timeout 900
