#!/usr/bin/env python3
"""False-alarm audit: every property's quick check on the UNCHANGED tree under many different seeds.
   seed_sweep.py [--seeds 1,2,3 | --count N --start S] [--flavours plain] [--props C06,...]
Any exit code other than 0 is reported with the tail of the output. Writes audit/seed_sweep.json."""
import argparse
import json
import os
import subprocess
import sys
import time

ROOT = os.path.dirname(os.path.dirname(os.path.abspath(__file__)))


def main():
    ap = argparse.ArgumentParser()
    ap.add_argument('--seeds', default=None)
    ap.add_argument('--count', type=int, default=6)
    ap.add_argument('--start', type=int, default=1000)
    ap.add_argument('--flavours', default=None)
    ap.add_argument('--props', default='C06,C08,C09,C10,C14,C15,C16,C18')
    ap.add_argument('--scale', type=float, default=1.0)
    a = ap.parse_args()
    seeds = [int(x) for x in a.seeds.split(',')] if a.seeds else list(range(a.start, a.start + a.count))
    results = []
    bad = 0
    for seed in seeds:
        for prop in a.props.split(','):
            cmd = [sys.executable, os.path.join(ROOT, 'tools', 'check.py'), prop, '--tier', 'quick', '--no-evidence', '--seed', str(seed), '--scale', str(a.scale)]
            if a.flavours:
                cmd += ['--flavours', a.flavours]
            t0 = time.time()
            r = subprocess.run(cmd, stdout=subprocess.PIPE, stderr=subprocess.STDOUT, text=True, errors='replace', cwd=ROOT)
            line = [l for l in r.stdout.splitlines() if l.startswith(prop + ' quick')]
            results.append({'seed': seed, 'property': prop, 'rc': r.returncode, 'summary': line[-1] if line else '', 'wall_s': round(time.time() - t0, 1)})
            flag = 'ok' if r.returncode == 0 else 'ALARM rc=%d' % r.returncode
            print('seed %-8d %s %-12s %s' % (seed, prop, flag, line[-1] if line else ''), flush=True)
            if r.returncode != 0:
                bad += 1
                print(r.stdout[-2500:], flush=True)
    os.makedirs(os.path.join(ROOT, 'audit'), exist_ok=True)
    path = os.path.join(ROOT, 'audit', 'seed_sweep.json')
    old = []
    if os.path.exists(path):
        try:
            old = json.load(open(path)).get('results', [])
        except Exception:
            old = []
    with open(path, 'w') as f:
        json.dump({'results': old + results}, f, indent=1)
    return 1 if bad else 0


if __name__ == '__main__':
    sys.exit(main())
