#!/usr/bin/env python3
"""Renders audit/selftest_mutants.json as the markdown table of DESIGN 9.5 (stdout)."""
import json
import os

ROOT = os.path.dirname(os.path.dirname(os.path.abspath(__file__)))
doc = json.load(open(os.path.join(ROOT, 'audit', 'selftest_mutants.json')))
cat = {m['patch']: m for m in json.load(open(os.path.join(ROOT, 'mutants', 'catalog.json')))['mutants']}
print('| change | breaks | needs / note | caught by (classes) | unit tests pass |')
print('|---|---|---|---|---|')
for e in doc['results']:
    patch = e['patch']
    note = ''
    if patch.startswith('seeded/'):
        sid = patch.split('/')[1]
        meta = json.load(open(os.path.join(ROOT, 'seeded', sid, 'meta.json')))
        note = meta.get('needs_to_manifest', '')
        name = sid
    else:
        note = cat.get(patch, {}).get('note', '')
        name = patch.replace('.diff', '')
    caught = []
    for p, v in sorted(e['verdicts'].items()):
        if v['rc'] == 1:
            caught.append('**%s** (%s)' % (p, ', '.join(c.replace('known_F5_lexer_merge__', 'F5:') for c in v['classes'][:4])))
        elif v['rc'] == 0:
            caught.append('%s: clean' % p)
        else:
            caught.append('%s: rc=%d' % (p, v['rc']))
    verdict = ' ; '.join(caught)
    if e['expect'] == 'clean':
        verdict += ' — negative control, must stay clean: ' + ('ok' if e['ok'] else 'ALARM')
    elif not e['ok']:
        verdict += ' — **MISSED by %s**' % e['property']
    print('| %s | %s | %s | %s | %s |' % (name, e['property'], note.replace('|', '/')[:230], verdict, {True: 'yes', False: 'no', None: '?'}[e.get('unit_tests_pass')]))
