#!/usr/bin/env python3
"""check.py <PROPERTY> --tier quick|thorough

Rebuilds the simulator against the CURRENT working tree of the repository (hooks on), runs seeded
batches of simulated runs on all cores, gates every violation (same plan twice in-process, then a
fresh-process replay of the minimised plan), applies the known-findings file, writes
evidence/<PROPERTY>.json and prints `VIOLATION property=<id> replay=<path>` lines.

exit 0: property held on everything explored (KNOWN-FINDING lines may be printed)
exit 1: violation(s) not listed in known_findings.json
exit 2: the harness itself misbehaved (non-deterministic replay, build failure, worker trouble)
"""
import argparse
import fcntl
import hashlib
import json
import os
import re
import subprocess
import sys
import time

ROOT = os.path.dirname(os.path.dirname(os.path.abspath(__file__)))
REPO = os.environ.get('VERIF_REPO', '/repo')
NPROC = int(os.environ.get('VERIF_WORKERS', '0')) or (os.cpu_count() or 4)
BUILDROOT = os.path.abspath(os.environ.get('VERIF_BUILD', os.path.join(ROOT, 'build')))
OUTROOT = os.path.abspath(os.environ.get('VERIF_OUT', os.path.join(ROOT, 'out')))

# per property: flavours and number of cases per tier  (flavour -> cases)
BUDGET = {
    'C06': {'quick': {'plain': 120000, 'asan': 24000}, 'thorough': {'plain': 1200000, 'asan': 500000}},
    'C08': {'quick': {'plain': 500000, 'asan': 24000}, 'thorough': {'plain': 3000000, 'asan': 300000}},
    'C09': {'quick': {'plain': 500000, 'asan': 24000}, 'thorough': {'plain': 3000000, 'asan': 300000}},
    'C10': {'quick': {'plain': 500000, 'asan': 24000}, 'thorough': {'plain': 3000000, 'asan': 300000}},
    'C14': {'quick': {'plain': 24000, 'asan': 4000}, 'thorough': {'plain': 100000, 'asan': 20000}},
    'C15': {'quick': {'plain': 16000, 'tsan': 3000, 'asan': 2000}, 'thorough': {'plain': 300000, 'tsan': 80000, 'asan': 30000}},
    'C16': {'quick': {'plain': 40000, 'asan': 4000}, 'thorough': {'plain': 250000, 'asan': 40000}},
    'C18': {'quick': {'plain': 500000, 'asan': 24000}, 'thorough': {'plain': 4000000, 'asan': 400000}},
}
RANDOM_GRAMMAR_PROPS = ('C09', 'C10', 'C16')
RANDOM_GRAMMARS_K = 16
DEFAULT_SEED = {'C06': 60601, 'C08': 80801, 'C09': 90901, 'C10': 101001, 'C14': 141401, 'C15': 151501, 'C16': 161601, 'C18': 181801}

REAL_COMPONENTS = [
    'ctpg parser objects (tables built by the real constructor; constexpr .rodata instances and run-time constructed heap instances)',
    'LR driver incl. error recovery (parser::context_parse)', 'generated DFA lexer (regex::dfa_match)', 'regex::expr matchers',
    'built-in buffers cstring_buffer / string_buffer / string_view_buffer', 'std::ostream formatting, std::vector, std::variant']
STUB_COMPONENTS = [
    'SimBuffer (reader seam)', 'SimStreamBuf (writer seam)', 'SimLexer (custom lexer peer)', 'replaced global operator new (allocator seam)',
    'functor bodies (log + build value digests)', 'SimCtx (context object)', 'seeded scheduler releasing one parked OS thread at a time']


BUILD_NOTES = {}


def log(msg):
    print(msg, flush=True)


def repo_digest():
    h = hashlib.sha256()
    inc = os.path.join(REPO, 'include')
    for d, _, files in sorted(os.walk(inc)):
        for fn in sorted(files):
            p = os.path.join(d, fn)
            h.update(p[len(inc):].encode())
            with open(p, 'rb') as f:
                h.update(f.read())
    return h.hexdigest()


def build(flavours):
    os.makedirs(BUILDROOT, exist_ok=True)
    lock = open(os.path.join(BUILDROOT, '.lock'), 'w')
    fcntl.flock(lock, fcntl.LOCK_EX)
    try:
        r = subprocess.run([sys.executable, os.path.join(ROOT, 'tools', 'gen_fleet.py'), os.path.join(BUILDROOT, 'gen')])
        if r.returncode != 0:
            return False
        digest = repo_digest()
        for fl in flavours:
            t0 = time.time()
            # objects must reflect the CONTENT of the repository's headers, whatever their timestamps say
            stamp = os.path.join(BUILDROOT, fl, '.repo_digest')
            old = open(stamp).read() if os.path.exists(stamp) else None
            if old is not None and old != digest:
                for fn in os.listdir(os.path.join(BUILDROOT, fl)):
                    if fn.startswith('fleet_') and fn.endswith('.o'):
                        os.unlink(os.path.join(BUILDROOT, fl, fn))
            base = ['make', '-C', os.path.join(ROOT, 'sim'), '-j%d' % NPROC, 'FLAVOUR=' + fl, 'REPO=' + REPO, 'BUILDROOT=' + BUILDROOT]
            r = subprocess.run(base, stdout=subprocess.PIPE, stderr=subprocess.STDOUT, text=True)
            if r.returncode != 0:
                # Does only the move-only instantiation fail to compile? Then C14 ("move-only value types work") is
                # violated at compile time; every other TU is still linked so that the other checks keep running.
                r2 = subprocess.run(base + ['-k'], stdout=subprocess.PIPE, stderr=subprocess.STDOUT, text=True)
                names = [l.strip() for l in open(os.path.join(BUILDROOT, 'gen', 'fleet.list')) if l.strip()]
                # units whose compilation failed: named by make's error lines (a stale object of an earlier build may
                # still exist), plus any object that is simply absent
                failed = set(re.findall(r'\*\*\* \[[^\]]*?/(fleet_[A-Za-z0-9_]+)\.o\] Error', r2.stdout))
                missing = [n for n in names if n in failed or not os.path.exists(os.path.join(BUILDROOT, fl, n + '.o'))]
                for n in missing:
                    try:
                        os.unlink(os.path.join(BUILDROOT, fl, n + '.o'))
                    except OSError:
                        pass
                if missing and all(n.startswith('fleet_') for n in missing) and len(missing) < len(names):
                    r3 = subprocess.run(base + ['SKIP=' + ' '.join(missing)], stdout=subprocess.PIPE, stderr=subprocess.STDOUT, text=True)
                    if r3.returncode == 0:
                        errs = [l for l in r2.stdout.splitlines() if ' error' in l][:12]
                        if all(n.endswith('_mnode') for n in missing):
                            BUILD_NOTES['move_only_compile_failure'] = {'flavour': fl, 'units': missing, 'errors': errs}
                            log('note: move-only instantiations do not compile (%s): %s' % (fl, ', '.join(missing)))
                        else:
                            # The fleet compiles against the tree the checks were built for; a grammar that stops
                            # compiling (typically: the table or automaton construction now fails in constant
                            # evaluation) is a change of the library's behaviour on a documented-valid grammar.
                            BUILD_NOTES['fleet_compile_failure'] = {'flavour': fl, 'units': missing, 'errors': errs}
                            log('note: fleet grammars do not compile (%s): %s' % (fl, ', '.join(missing)))
                        with open(stamp, 'w') as f:
                            f.write(digest)
                        continue
                log('BUILD FAILED (%s):\n%s' % (fl, r.stdout[-6000:]))
                return False
            with open(stamp, 'w') as f:
                f.write(digest)
            log('build %s ok (%.1fs)' % (fl, time.time() - t0))
    finally:
        fcntl.flock(lock, fcntl.LOCK_UN)
        lock.close()
    return True


def worker_bin(fl):
    return os.path.join(BUILDROOT, fl, 'simworker')


class Slice:
    def __init__(self, fl, prop, seed, lo, hi, stride, offset, thorough, outdir, max_seconds):
        self.fl, self.prop, self.seed, self.lo, self.hi = fl, prop, seed, lo, hi
        self.stride, self.offset, self.thorough, self.outdir = stride, offset, thorough, outdir
        self.max_seconds = max_seconds
        self.proc = None
        self.summaries, self.viols, self.nondet, self.crashes = [], [], [], []
        self.restarts = 0

    def start(self, lo):
        cmd = [worker_bin(self.fl), '--batch', self.prop, '--seed', str(self.seed), '--from', str(lo), '--to', str(self.hi),
               '--stride', str(self.stride), '--offset', str(self.offset), '--out', self.outdir]
        if self.thorough:
            cmd.append('--thorough')
        if self.max_seconds:
            cmd += ['--max-seconds', str(self.max_seconds)]
        env = dict(os.environ)
        env.setdefault('TSAN_OPTIONS', 'report_signal_unsafe=0')
        self.proc = subprocess.Popen(cmd, stdout=subprocess.PIPE, stderr=subprocess.PIPE, cwd=ROOT, env=env)

    def finish(self):
        """waits; returns index to restart from (or None)"""
        try:
            # backstop behind the worker's own watchdog thread: a worker that neither finishes nor dies is killed
            out, err = self.proc.communicate(timeout=(self.max_seconds or 3000) + 900)
        except subprocess.TimeoutExpired:
            self.proc.kill()
            out, err = self.proc.communicate()
            err += b'\n[check.py] worker killed: no exit within the time cap plus 900 s\n'
        rc = self.proc.returncode
        crash_idx = None
        for line in out.decode('latin-1').splitlines():
            if line.startswith('SUMMARY '):
                self.summaries.append(json.loads(line[8:]))
            elif line.startswith('VIOL '):
                self.viols.append(json.loads(line[5:]))
            elif line.startswith('NONDET '):
                self.nondet.append(json.loads(line[7:]))
            elif line.startswith('CRASH '):
                parts = line.split()
                crash_idx = int(parts[1])
        if rc in (0, 1, 2) and self.summaries:
            return None
        # the worker died: sanitizer report, signal or watchdog
        self.crashes.append({'flavour': self.fl, 'index': crash_idx, 'rc': rc, 'stderr': err.decode('latin-1')[-4000:]})
        if crash_idx is None:
            return None
        self.restarts += 1
        if self.restarts > 3:
            return None
        # (a negative index is a worker's cold-start case: go on with the regular cases, without another cold start)
        return 1 if crash_idx < 0 else crash_idx + 1


def run_batches(prop, tier, seed, budgets, outdir, time_cap):
    results = []
    for fl, cases in budgets.items():
        nw = min(NPROC, 8) if fl in ('asan', 'tsan') else NPROC
        nw = max(1, min(nw, cases))
        slices = [Slice(fl, prop, seed, 0, cases, nw, k, tier == 'thorough', outdir, time_cap) for k in range(nw)]
        t0 = time.time()
        pending = []
        for s in slices:
            s.start(0)
            pending.append(s)
        total_crashes = 0
        while pending:
            nxt = []
            for s in pending:
                restart = s.finish()
                total_crashes = sum(len(x.crashes) for x in slices)
                # a crash storm (every run dies) is settled by the first few crashes: do not keep restarting
                if restart is not None and restart < s.hi and total_crashes <= 12:
                    s.start(restart)
                    nxt.append(s)
            pending = nxt
        results.append((fl, slices, time.time() - t0))
    return results


def show_plan(fl, prop, seed, index, thorough):
    cmd = [worker_bin(fl), '--show', prop, '--seed', str(seed), '--index', str(index)]
    if thorough:
        cmd.append('--thorough')
    r = subprocess.run(cmd, stdout=subprocess.PIPE, stderr=subprocess.PIPE, cwd=ROOT)
    try:
        return json.loads(r.stdout.decode('latin-1'))
    except Exception:
        return None


def replay(fl, path):
    env = dict(os.environ)
    try:
        r = subprocess.run([worker_bin(fl), '--replay', path], stdout=subprocess.PIPE, stderr=subprocess.PIPE, cwd=ROOT, env=env, timeout=400)
    except subprocess.TimeoutExpired:
        return 78, '', 'replay timed out (hang reproduced)'
    return r.returncode, r.stdout.decode('latin-1'), r.stderr.decode('latin-1')


def determinism_probe(fl, prop, seed, cases, outdir, thorough):
    """the same cases executed by 16 and by 3 worker processes must give identical per-case history hashes"""
    import tempfile
    res = []
    with tempfile.TemporaryDirectory(prefix='ctpg_det_', dir='/tmp') as tmp:
        for nw in (min(16, NPROC), 3):
            procs = []
            for k in range(nw):
                hf = os.path.join(tmp, 'h_%d_%d' % (nw, k))
                cmd = [worker_bin(fl), '--batch', prop, '--seed', str(seed), '--from', '0', '--to', str(cases), '--stride', str(nw), '--offset', str(k),
                       '--out', os.path.join(tmp, 'out'), '--hashes', hf]
                if thorough:
                    cmd.append('--thorough')
                procs.append((subprocess.Popen(cmd, stdout=subprocess.DEVNULL, stderr=subprocess.DEVNULL, cwd=ROOT), hf))
            h = {}
            for pr, hf in procs:
                pr.wait()
                if os.path.exists(hf):
                    for line in open(hf):
                        i, v = line.split()
                        h[int(i)] = v
            res.append(h)
    bad = [i for i in range(cases) if i in res[0] and i in res[1] and res[0][i] != res[1][i]]
    both = sum(1 for i in range(cases) if i in res[0] and i in res[1])
    return {'flavour': fl, 'cases': cases, 'cases_compared': both, 'worker_counts': [min(16, NPROC), 3], 'mismatching_cases': len(bad), 'first_bad': bad[:5]}


def valgrind_pass(prop, seed, cases, outdir):
    """memcheck over a few hundred seeded cases of the plain binary (thorough tier)"""
    cmd = ['valgrind', '-q', '--error-exitcode=99', '--errors-for-leak-kinds=none', '--leak-check=no', '--show-mismatched-frees=no', worker_bin('plain'), '--batch', prop, '--seed', str(seed),
           '--from', '0', '--to', str(cases), '--out', outdir]
    t0 = time.time()
    r = subprocess.run(cmd, stdout=subprocess.PIPE, stderr=subprocess.PIPE, cwd=ROOT, env=dict(os.environ, VERIF_NO_HEAP='1'))
    err = r.stderr.decode('latin-1')
    return {'cases': cases, 'exit': r.returncode, 'errors_reported': err.count('== Invalid') + err.count('uninitialised'), 'wall_s': round(time.time() - t0, 1),
            'stderr_tail': err[-1500:] if r.returncode == 99 else ''}


def load_audit(prop):
    """summary of the last committed sensitivity audit (tools/selftest_mutants.py), NOT produced by this run"""
    p = os.path.join(ROOT, 'audit', 'selftest_mutants.json')
    if not os.path.exists(p):
        return None
    try:
        doc = json.load(open(p))
    except Exception:
        return None
    mine = [e for e in doc.get('results', []) if prop in e.get('verdicts', {})]
    return {'source': 'audit/selftest_mutants.json (committed; produced by tools/selftest_mutants.py, not by this run)', 'audited_at_repo_commit': doc.get('repo_commit'),
            'changes_checked_against_this_property': len(mine),
            'caught': sum(1 for e in mine if e['verdicts'][prop]['rc'] == 1), 'negative_controls_clean': sum(1 for e in mine if e.get('expect') == 'clean' and e['verdicts'][prop]['rc'] == 0)}


def load_known():
    p = os.path.join(ROOT, 'known_findings.json')
    if not os.path.exists(p):
        return []
    with open(p) as f:
        doc = json.load(f)
    return [k for k in doc.get('findings', []) if k.get('status') == 'open']


def matches_known(k, prop, cls, detail, plan):
    if k.get('property') != prop:
        return False
    if k.get('class') and k['class'] != cls:
        return False
    if k.get('class_regex') and not re.search(k['class_regex'], cls or ''):
        return False
    pat = k.get('detail_regex')
    if pat and not re.search(pat, detail or ''):
        return False
    pp = k.get('parser_regex')
    if pp:
        try:
            parsers = [o['parser'] for t in plan['tasks'] for o in t['ops']]
        except Exception:
            parsers = []
        if not any(re.search(pp, x) for x in parsers):
            return False
    return True


def main():
    ap = argparse.ArgumentParser()
    ap.add_argument('prop')
    ap.add_argument('--tier', default=os.environ.get('VERIF_TIER', 'quick'))
    ap.add_argument('--seed', type=int, default=None)
    ap.add_argument('--scale', type=float, default=1.0, help='multiply the number of cases')
    ap.add_argument('--flavours', default=None)
    ap.add_argument('--no-evidence', action='store_true')
    ap.add_argument('--time-cap', type=float, default=None, help='seconds per worker (stops early, still reports what ran)')
    a = ap.parse_args()
    prop, tier = a.prop, a.tier
    if prop not in BUDGET:
        log('unknown property ' + prop)
        return 2
    seed = a.seed if a.seed is not None else int(os.environ.get('VERIF_SEED', DEFAULT_SEED[prop]))
    budgets = dict(BUDGET[prop][tier])
    if a.flavours:
        budgets = {k: v for k, v in budgets.items() if k in a.flavours.split(',')}
    budgets = {k: max(1, int(v * a.scale)) for k, v in budgets.items()}
    time_cap = a.time_cap if a.time_cap else (600 if tier == 'quick' else 3000)
    t_start = time.time()
    # thorough tier of the properties that range over grammars: K seeded random conflict-free grammars join the fleet
    # (fleet/randgram.py). They get a build root of their own so that a quick check running at the same time never sees
    # a worker binary with another fleet. VERIF_RANDOM_GRAMMARS="<seed>:<k>" overrides, "0:0" switches it off.
    global BUILDROOT
    if tier == 'thorough' and prop in RANDOM_GRAMMAR_PROPS and 'VERIF_RANDOM_GRAMMARS' not in os.environ:
        os.environ['VERIF_RANDOM_GRAMMARS'] = '%d:%d' % (seed % 1000000, RANDOM_GRAMMARS_K)
    if os.environ.get('VERIF_RANDOM_GRAMMARS', '') in ('', '0:0'):
        os.environ.pop('VERIF_RANDOM_GRAMMARS', None)
    else:
        BUILDROOT = os.path.join(BUILDROOT, 'x')
        log('random grammars: VERIF_RANDOM_GRAMMARS=%s (build root %s)' % (os.environ['VERIF_RANDOM_GRAMMARS'], BUILDROOT))
    if not build(list(budgets.keys())):
        return 2
    outdir = os.path.join(OUTROOT, prop)
    os.makedirs(outdir, exist_ok=True)
    results = run_batches(prop, tier, seed, budgets, outdir, time_cap)

    known = load_known()
    total_runs = total_cases = 0
    counters = {}
    distinct = set()
    interleavings = set()
    samples = []
    violations = []      # (flavour, viol json)
    nondet = []
    crashes = []
    per_flavour = {}
    seq_total = steps_total = 0
    tsan_reports = 0
    incomplete = False
    for fl, slices, wall in results:
        fr = fc = 0
        for s in slices:
            for sm in s.summaries:
                fr += sm['runs']; fc += sm['cases']
                seq_total += sm.get('seq_total', 0); steps_total += sm.get('steps_total', 0)
                tsan_reports += sm.get('tsan_reports_total', 0)
                for k, v in sm['counters'].items():
                    counters[k] = counters.get(k, 0) + v
                distinct.update(sm['distinct'])
                interleavings.update(sm.get('interleavings', []))
                if len(samples) < 3:
                    samples.extend(sm['samples'][:1])
            for v in s.viols:
                violations.append((fl, v))
            nondet.extend(dict(x, _flavour=fl) for x in s.nondet)
            for c in s.crashes:
                c['flavour'] = fl
                crashes.append(c)
        total_runs += fr; total_cases += fc
        per_flavour[fl] = {'cases': fc, 'runs': fr, 'wall_s': round(wall, 2), 'runs_per_hour': int(fr / wall * 3600) if wall > 0 else 0}
        if fc == 0 and not any(s.crashes for s in slices):
            incomplete = True

    rc = 0
    trouble = []      # things that make the run unusable as a verdict unless a confirmed violation exists anyway
    out_lines = []
    reported = 0
    known_hits = {}
    # crashes (sanitizer reports, signals, watchdog) are violations of the property whose batch they happened in
    crashes.sort(key=lambda c: (c['index'] is None, c['index'] if c['index'] is not None else 0))
    for c in crashes[:6]:
        if c['index'] is None:
            log('worker died without naming a run: rc=%s\n%s' % (c['rc'], c['stderr'][-1500:]))
            trouble.append('worker died without naming a run')
            continue
        plan = show_plan(c['flavour'], prop, seed, c['index'], tier == 'thorough')
        cls = 'hang' if c['rc'] == 78 else 'crash'
        path = os.path.join(outdir, 'replay_%s_%s_%d_%d.json' % (prop, cls, seed, c['index']))
        with open(path, 'w') as f:
            json.dump({'property': prop, 'class': cls, 'detail': 'worker died (rc=%s) in flavour %s' % (c['rc'], c['flavour']), 'seed': seed,
                       'index': c['index'], 'flavour': c['flavour'], 'plan': plan, 'stderr_tail': c['stderr'][-3000:]}, f)
        rrc, rout, rerr = replay(c['flavour'], path)
        detail = 'process died: ' + (re.findall(r'(SUMMARY: [^\n]*|runtime error: [^\n]*)', c['stderr']) or ['rc=%s' % c['rc']])[0]
        if rrc in (77, 78) or rrc < 0 or rrc == 1:
            violations.append((c['flavour'], {'property': prop, 'class': cls, 'detail': detail, 'replay': path, 'plan': plan, 'pre_gated': True}))
        else:
            log('crash at index %s (%s flavour) did not reproduce on replay (rc=%s)' % (c['index'], c['flavour'], rrc))
            trouble.append('unreproduced crash')

    if 'fleet_compile_failure' in BUILD_NOTES:
        n = BUILD_NOTES['fleet_compile_failure']
        path = os.path.join(outdir, 'replay_%s_fleet_grammar_does_not_compile_%d.json' % (prop, seed))
        with open(path, 'w') as f:
            json.dump({'property': prop, 'class': 'fleet_grammar_does_not_compile', 'detail': 'the fleet grammar(s) ' + ', '.join(n['units']) +
                       ' no longer compile against this tree (their parser objects cannot be constructed)', 'compiler_errors': n['errors'],
                       'reproduce': 'make -C sim FLAVOUR=%s REPO=%s' % (n['flavour'], REPO)}, f, indent=1)
        violations.append((n['flavour'], {'property': prop, 'class': 'fleet_grammar_does_not_compile',
                                          'detail': 'a fleet grammar does not compile: ' + '; '.join(n['errors'][:2]), 'replay': path, 'plan': None, 'pre_gated': True}))

    if prop == 'C14' and 'move_only_compile_failure' in BUILD_NOTES:
        n = BUILD_NOTES['move_only_compile_failure']
        path = os.path.join(outdir, 'replay_C14_move_only_does_not_compile_%d.json' % seed)
        with open(path, 'w') as f:
            json.dump({'property': 'C14', 'class': 'move_only_does_not_compile', 'detail': 'the move-only value instantiation of ' + ', '.join(n['units']) +
                       ' no longer compiles against this tree', 'compiler_errors': n['errors'],
                       'reproduce': 'make -C sim FLAVOUR=%s REPO=%s' % (n['flavour'], REPO)}, f, indent=1)
        violations.append((n['flavour'], {'property': 'C14', 'class': 'move_only_does_not_compile',
                                          'detail': 'move-only value type does not compile: ' + '; '.join(n['errors'][:2]), 'replay': path, 'plan': None, 'pre_gated': True}))

    # A violation that does not repeat when its plan is run again INSIDE the warm worker process may be an effect of the
    # first such call in a process (a warn-once flag, a lazily filled table): the fresh-process replay decides. It counts
    # only if two fresh processes both reproduce it; otherwise it stays a harness problem (exit 2), never a verdict.
    first_call_done = {}
    still_nondet = []
    for nd in nondet:
        cls = nd.get('class', '?')
        if first_call_done.get(cls, 0) >= 3 or not nd.get('plan'):
            still_nondet.append(nd)
            continue
        first_call_done[cls] = first_call_done.get(cls, 0) + 1
        fl = nd.get('_flavour', 'plain')
        path = os.path.join(outdir, 'replay_%s_%s_first_call_%s_%s.json' % (prop, cls, nd.get('seed'), nd.get('index')))
        with open(path, 'w') as f:
            json.dump({'property': prop, 'class': cls, 'detail': nd.get('detail', ''), 'seed': nd.get('seed'), 'index': nd.get('index'), 'flavour': fl,
                       'plan': nd['plan'], 'note': 'did not repeat inside the warm worker process; reproduces in a fresh process (first-call effect)'}, f)
        r1 = replay(fl, path)
        r2 = replay(fl, path) if r1[0] == 1 else (0, '', '')
        if r1[0] == 1 and r2[0] == 1:
            violations.append((fl, {'property': prop, 'class': cls, 'detail': '[an effect of the FIRST such call in a process: reproduced by two fresh-process replays, not by re-execution in the warm worker] ' + nd.get('detail', ''),
                                    'replay': path, 'plan': nd['plan'], 'pre_gated': True}))
        else:
            still_nondet.append(nd)
    confirmed_first_call = set(v['class'] for _, v in violations if v.get('detail', '').startswith('[an effect of the FIRST such call'))
    nondet = [x for x in nondet if x.get('class', '?') not in confirmed_first_call]

    seen_classes = {}
    gated_per_class = {}
    for fl, v in violations:
        # gate 2: fresh-process replay of the minimised plan (the first few of every class; the rest are counted)
        gated_per_class[v['class']] = gated_per_class.get(v['class'], 0) + 1
        if gated_per_class[v['class']] > 4:
            v = dict(v); v['pre_gated'] = True
        if not v.get('pre_gated'):
            rrc, rout, rerr = replay(fl, v['replay'])
            if rrc != 1:
                log('replay of %s did not reproduce (rc=%s)\n%s' % (v['replay'], rrc, rout[-800:]))
                trouble.append('unreproduced violation')
                continue
        kf = None
        for k in known:
            if matches_known(k, v['property'], v['class'], v['detail'], v.get('plan')):
                kf = k
                break
        if kf:
            known_hits[kf['id']] = known_hits.get(kf['id'], 0) + 1
            continue
        key = v['class']
        seen_classes[key] = seen_classes.get(key, 0) + 1
        if seen_classes[key] <= 5:
            out_lines.append('VIOLATION property=%s replay=%s' % (prop, v['replay']))
            out_lines.append('  class=%s flavour=%s %s' % (v['class'], fl, v['detail'][:600]))
        reported += 1
        rc = max(rc, 1)
    for k in known:
        if known_hits.get(k['id']):
            log('KNOWN-FINDING: property=%s %s (%d occurrences this run)' % (k['property'], k['what'], known_hits[k['id']]))
    if nondet:
        log('NON-DETERMINISTIC: %d violation(s) did not repeat in-process; first: %s' % (len(nondet), json.dumps(nondet[0])[:600]))
        trouble.append('violation did not repeat in-process')
    if incomplete:
        log('a flavour produced no runs')
        trouble.append('a flavour produced no runs')
    for l in out_lines:
        log(l)

    # determinism probe: part of every run (DESIGN 9.2); a mismatch is a harness failure, never a property verdict
    det = determinism_probe('plain' if 'plain' in budgets else list(budgets.keys())[0], prop, seed, 300 if tier == 'quick' else 3000, outdir, tier == 'thorough') \
        if not crashes and not reported else {'skipped': 'violations or worker crashes in this run: the verdict does not depend on the probe'}
    if det.get('mismatching_cases'):
        log('NON-DETERMINISTIC: %d of %d cases gave different history hashes at different worker counts: %s' % (det['mismatching_cases'], det['cases'], det['first_bad']))
        rc = max(rc, 2)
    vg = None
    if tier == 'thorough' and prop == 'C06' and 'plain' in budgets and not crashes:
        vg = valgrind_pass(prop, seed, 150, outdir)
        if vg['exit'] == 99:
            path = os.path.join(outdir, 'valgrind_%s_%d.txt' % (prop, seed))
            with open(path, 'w') as f:
                f.write(vg['stderr_tail'])
            log('VIOLATION property=%s replay=%s' % (prop, path))
            log('  class=valgrind_memcheck ' + vg['stderr_tail'][-400:].replace('\n', ' | '))
            reported += 1
            rc = max(rc, 1)

    # verdict: a confirmed (gated, replayed) violation stands whatever else went wrong; otherwise trouble means exit 2
    if trouble and rc == 0:
        rc = 2
    if trouble:
        log('harness notes: ' + '; '.join(sorted(set(trouble))))

    wall = time.time() - t_start
    fault_fired = {k[len('fault_fired.'):]: v for k, v in counters.items() if k.startswith('fault_fired.')}
    probes = {k[len('probe.'):]: v for k, v in counters.items() if k.startswith('probe.')}
    other = {k: v for k, v in counters.items() if not k.startswith('fault_fired.') and not k.startswith('probe.')}
    run_wall = sum(p['wall_s'] for p in per_flavour.values())
    evidence = {
        'property_id': prop, 'tier': tier, 'seed': seed, 'level': 'exploration',
        'coverage': {
            'evaluations': total_runs,
            'distinct_nontrivial': len(distinct),
            'rule': 'one evaluation = one simulated run (a plan executed on the real code under the simulator). Plans are generated from '
                    'VERIF_SEED and the run index only. A run counts as non-trivial when at least one injected fault actually fired inside a '
                    'library call (input/token/stream/allocator/lexer fault) or, for C15, at least one task switch happened while another task '
                    'was inside a library call; distinct = distinct hashes of (ops, faults, realised switch sequence) among those.',
            'samples': samples[:3],
            'cases': total_cases,
            'per_flavour': per_flavour,
            'runs_per_hour': int(total_runs / run_wall * 3600) if run_wall > 0 else 0,
            'logical_time': {'events_seq_total': seq_total, 'driver_steps_total': steps_total,
                             'note': 'ctpg has no clock or timer; simulated time is the global event sequence number'},
            'faults_fired': fault_fired,
            'probes': probes,
            'counters': other,
            'distinct_interleavings': len(interleavings),
            'tsan_reports': tsan_reports,
            'components_real': REAL_COMPONENTS, 'components_stub': STUB_COMPONENTS,
            'known_findings_seen': known_hits,
            'worker_crashes': len(crashes),
            'determinism_probe': det,
            'valgrind_pass': vg,
            'sensitivity_audit': load_audit(prop),
        },
        'assumptions': [
            'the fleet grammars (fleet/specs.py) stand for "all grammars"; the program axis is fixed, not sampled per run',
            'the reference model (sim/ref.cpp) is trusted; it agrees with the unchanged tree on every fault-free run of this batch',
            'exploration samples schedules, inputs and fault placements; a clean batch is evidence, not proof',
        ],
        'wall_s': round(wall, 2),
        'violations': reported,
    }
    if not a.no_evidence:
        os.makedirs(os.path.join(ROOT, 'evidence'), exist_ok=True)
        with open(os.path.join(ROOT, 'evidence', prop + '.json'), 'w') as f:
            json.dump(evidence, f, indent=1)
    log('%s %s: %d runs (%d cases), %d distinct non-trivial, %d violation(s), %.1fs' % (prop, tier, total_runs, total_cases, len(distinct), reported, wall))
    return rc


if __name__ == '__main__':
    sys.exit(main())
