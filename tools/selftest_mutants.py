#!/usr/bin/env python3
"""Sensitivity audit (DESIGN 9.3): every patch under mutants/ and seeded/*/ is applied to a scratch copy of the
repository (outside /repo and /verif), the property's quick check is run against the copy with its own build
directory, a VIOLATION is expected, and the copy and its build output are removed.

  selftest_mutants.py [--only NAME_SUBSTRING] [--unit-tests] [--keep]

mutants/catalog.json maps each patch to the property whose check must catch it and to 'expect':
  'violation' (default) or 'clean' (negative control that must NOT alarm).
"""
import argparse
import json
import os
import shutil
import subprocess
import sys
import tempfile
import time

ROOT = os.path.dirname(os.path.dirname(os.path.abspath(__file__)))
REPO = '/repo'


def load_catalog():
    items = []
    cat = json.load(open(os.path.join(ROOT, 'mutants', 'catalog.json')))
    for e in cat['mutants']:
        e = dict(e)
        e['path'] = os.path.join(ROOT, 'mutants', e['patch'])
        e['unit_tests_known'] = e.get('passes_unit_tests')
        items.append(e)
    sd = os.path.join(ROOT, 'seeded')
    if os.path.isdir(sd):
        for name in sorted(os.listdir(sd)):
            mp = os.path.join(sd, name, 'meta.json')
            if os.path.exists(mp):
                m = json.load(open(mp))
                items.append({'patch': 'seeded/%s/patch.diff' % name, 'path': os.path.join(sd, name, 'patch.diff'),
                              'property': m['property'], 'expect': m.get('expect', 'violation'), 'checks': m.get('checks', [m['property']]),
                              'scale': m.get('scale', 1.0), 'flavours': m.get('flavours'),
                              'unit_tests_known': m.get('confirmed', {}).get('unit_tests_pass_with_change')})
    return items


def run(cmd, **kw):
    return subprocess.run(cmd, stdout=subprocess.PIPE, stderr=subprocess.STDOUT, text=True, errors='replace', **kw)


def main():
    ap = argparse.ArgumentParser()
    ap.add_argument('--only', default=None)
    ap.add_argument('--plain-first', action='store_true', help='items without an explicit flavour list are first run with the plain flavour only; all flavours only if that does not settle it')
    ap.add_argument('--unit-tests', action='store_true', help='also confirm that the repository test suite passes with the patch')
    ap.add_argument('--keep', action='store_true')
    a = ap.parse_args()
    items = load_catalog()
    if a.only:
        pats = a.only.split(',')
        items = [i for i in items if any(p in i['patch'] for p in pats)]
    results = []
    ok_all = True
    for it in items:
        t0 = time.time()
        scratch = tempfile.mkdtemp(prefix='ctpg_mut_', dir='/tmp')
        try:
            r = run(['git', '-C', REPO, 'worktree', 'add', '--detach', os.path.join(scratch, 'repo'), 'HEAD'])
            if r.returncode != 0:
                print('cannot create worktree:', r.stdout)
                return 2
            wt = os.path.join(scratch, 'repo')
            r = run(['git', '-C', wt, 'apply', it['path']])
            if r.returncode != 0:
                print('%-55s PATCH DOES NOT APPLY\n%s' % (it['patch'], r.stdout))
                ok_all = False
                continue
            unit = None
            if a.unit_tests:
                b = os.path.join(scratch, 'tb')
                r = run(['cmake', '-G', 'Ninja', '-DCMAKE_BUILD_TYPE=RelWithDebInfo', '-DCMAKE_CXX_FLAGS=-Wno-error', '-S', wt, '-B', b])
                r = run(['cmake', '--build', b])
                r2 = run(['ctest', '--test-dir', b, '-j8'])
                unit = (r.returncode == 0 and r2.returncode == 0)
            env = dict(os.environ)
            env['VERIF_REPO'] = wt
            env['VERIF_BUILD'] = os.path.join(scratch, 'build')
            env['VERIF_OUT'] = os.path.join(scratch, 'out')
            expect = it.get('expect', 'violation')

            def run_checks(flavours):
                vd = {}
                for prop in it.get('checks', [it['property']]):
                    cmd = [sys.executable, os.path.join(ROOT, 'tools', 'check.py'), prop, '--tier', 'quick', '--no-evidence', '--scale', str(it.get('scale', 1.0))]
                    if flavours:
                        cmd += ['--flavours', flavours]
                    r = run(cmd, env=env, cwd=ROOT)
                    classes = sorted(set(l.split('class=')[1].split()[0] for l in r.stdout.splitlines() if 'class=' in l))
                    vd[prop] = (r.returncode, classes, r.stdout[-1500:])
                # a change is caught when ANY of the checks named for it reports it; a control must be clean in all of them
                g = any(v[0] == 1 for v in vd.values()) if expect == 'violation' else all(v[0] == 0 for v in vd.values())
                return vd, g

            flavours_used = it.get('flavours') or 'all'
            if a.plain_first and not it.get('flavours') and expect == 'violation':
                verdicts, good = run_checks('plain')
                flavours_used = 'plain'
                if not good:
                    verdicts, good = run_checks(None)
                    flavours_used = 'all'
            else:
                verdicts, good = run_checks(it.get('flavours'))
            ok_all = ok_all and good and (unit is not False)
            print('%-55s %-4s expect=%-9s %s unit_tests=%s %.0fs' % (
                it['patch'], 'OK' if good else 'MISS', expect,
                ' '.join('%s:rc=%d%s' % (p, v[0], ('[' + ','.join(v[1]) + ']') if v[1] else '') for p, v in verdicts.items()), unit, time.time() - t0), flush=True)
            if not good:
                print(verdicts[it['property']][2] if it['property'] in verdicts else '')
            if unit is None:
                unit = it.get('unit_tests_known')
            results.append({'patch': it['patch'], 'property': it['property'], 'expect': expect, 'ok': good, 'unit_tests_pass': unit, 'flavours_used': flavours_used,
                            'verdicts': {p: {'rc': v[0], 'classes': v[1]} for p, v in verdicts.items()}})
        finally:
            run(['git', '-C', REPO, 'worktree', 'remove', '--force', os.path.join(scratch, 'repo')])
            if not a.keep:
                shutil.rmtree(scratch, ignore_errors=True)
            run(['git', '-C', REPO, 'worktree', 'prune'])
    os.makedirs(os.path.join(ROOT, 'audit'), exist_ok=True)
    head = run(['git', '-C', REPO, 'rev-parse', '--short', 'HEAD']).stdout.strip()
    # results are merged into the committed audit file, keyed by patch (a partial run updates its entries only)
    path = os.path.join(ROOT, 'audit', 'selftest_mutants.json')
    merged = {}
    if os.path.exists(path):
        try:
            for e in json.load(open(path)).get('results', []):
                merged[e['patch']] = e
        except Exception:
            merged = {}
    vh = run(['git', '-C', ROOT, 'rev-parse', '--short', 'HEAD']).stdout.strip()
    for e in results:
        e['verif_commit'] = vh
        merged[e['patch']] = e
    known = set(i['patch'] for i in load_catalog())
    with open(path, 'w') as f:
        json.dump({'repo_commit': head, 'results': [merged[k] for k in sorted(merged) if k in known]}, f, indent=1)
    return 0 if ok_all else 1


if __name__ == '__main__':
    sys.exit(main())
