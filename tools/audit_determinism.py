#!/usr/bin/env python3
"""Determinism audit (DESIGN 9.2): every case of a batch is executed twice, at two different worker counts
(so by different processes, in different orders and neighbourhoods), and the per-case history hashes must be
identical. One VERIF_SEED value + one index = one exactly repeatable execution.

  audit_determinism.py [--props C06,C15,...] [--flavours plain,asan,tsan] [--cases 2000] [--seed S]

Writes out/determinism_audit.json; exit 0 when every hash pair agrees, 2 otherwise.
"""
import argparse
import json
import os
import subprocess
import sys
import tempfile
import time

ROOT = os.path.dirname(os.path.dirname(os.path.abspath(__file__)))
sys.path.insert(0, os.path.join(ROOT, 'tools'))
import check  # noqa: E402


def run_batch(fl, prop, seed, cases, nworkers, tmpdir, tag):
    procs = []
    for k in range(nworkers):
        hf = os.path.join(tmpdir, '%s_%s_%s_%d.hashes' % (prop, fl, tag, k))
        cmd = [check.worker_bin(fl), '--batch', prop, '--seed', str(seed), '--from', '0', '--to', str(cases), '--stride', str(nworkers),
               '--offset', str(k), '--out', os.path.join(tmpdir, 'out'), '--hashes', hf]
        procs.append((subprocess.Popen(cmd, stdout=subprocess.DEVNULL, stderr=subprocess.DEVNULL, cwd=ROOT), hf))
    res = {}
    for p, hf in procs:
        p.wait()
        if os.path.exists(hf):
            for line in open(hf):
                i, h = line.split()
                res[int(i)] = h
    return res


def main():
    ap = argparse.ArgumentParser()
    ap.add_argument('--props', default='C06,C08,C09,C10,C14,C15,C16,C18')
    ap.add_argument('--flavours', default='plain,asan,tsan')
    ap.add_argument('--cases', type=int, default=2000)
    ap.add_argument('--seed', type=int, default=424242)
    a = ap.parse_args()
    flavours = a.flavours.split(',')
    if not check.build(flavours):
        return 2
    report = {'seed': a.seed, 'cases_per_batch': a.cases, 'worker_counts': [16, 3], 'batches': [], 'mismatches': 0}
    t0 = time.time()
    with tempfile.TemporaryDirectory(prefix='ctpg_det_', dir='/tmp') as tmp:
        for fl in flavours:
            for prop in a.props.split(','):
                cases = a.cases if fl == 'plain' else max(200, a.cases // 4)
                if prop in ('C14', 'C15', 'C16'):
                    cases = max(100, cases // 4)
                r1 = run_batch(fl, prop, a.seed, cases, 16, tmp, 'a')
                r2 = run_batch(fl, prop, a.seed, cases, 3, tmp, 'b')
                bad = [i for i in range(cases) if r1.get(i) != r2.get(i)]
                missing = [i for i in range(cases) if i not in r1 or i not in r2]
                report['batches'].append({'flavour': fl, 'property': prop, 'cases': cases, 'mismatching_cases': len(bad), 'missing': len(missing), 'first_bad': bad[:5]})
                report['mismatches'] += len(bad)
                print('%-5s %s cases=%d mismatches=%d missing=%d' % (fl, prop, cases, len(bad), len(missing)), flush=True)
    report['wall_s'] = round(time.time() - t0, 1)
    os.makedirs(os.path.join(ROOT, 'out'), exist_ok=True)
    with open(os.path.join(ROOT, 'out', 'determinism_audit.json'), 'w') as f:
        json.dump(report, f, indent=1)
    return 0 if report['mismatches'] == 0 else 2


if __name__ == '__main__':
    sys.exit(main())
