#!/usr/bin/env python3
"""Confirms a change produced by an independent sub-agent and files it under seeded/<id>/.

  ingest_seeded.py <agent worktree> <seeded id> <property> [--demo-flags "..."] [--checks C08,C10] [--flavours plain]

Steps, all in a fresh scratch worktree of /repo (outside /repo and /verif, removed afterwards):
  1. the patch applies; 2. the repository test suite passes with it; 3. the demonstration passes WITHOUT the patch
  and fails WITH it. Only then patch.diff, the demonstration, notes.md and meta.json are stored.
Detection by the checks is established separately by tools/selftest_mutants.py (which reads seeded/*/meta.json).
"""
import argparse
import json
import os
import shutil
import subprocess
import sys
import tempfile

ROOT = os.path.dirname(os.path.dirname(os.path.abspath(__file__)))
REPO = '/repo'


def run(cmd, **kw):
    return subprocess.run(cmd, stdout=subprocess.PIPE, stderr=subprocess.STDOUT, text=True, errors='replace', **kw)


def main():
    ap = argparse.ArgumentParser()
    ap.add_argument('worktree')
    ap.add_argument('sid')
    ap.add_argument('prop')
    ap.add_argument('--demo-flags', default='')
    ap.add_argument('--checks', default=None)
    ap.add_argument('--flavours', default=None)
    ap.add_argument('--needs', default='')
    a = ap.parse_args()
    src = os.path.join(a.worktree, 'seeded')
    patch = os.path.join(src, 'patch.diff')
    demo = os.path.join(src, 'demo.cpp')
    for f in (patch, demo):
        if not os.path.exists(f):
            print('missing', f)
            return 2
    scratch = tempfile.mkdtemp(prefix='ctpg_ingest_', dir='/tmp')
    wt = os.path.join(scratch, 'repo')
    log = []
    try:
        r = run(['git', '-C', REPO, 'worktree', 'add', '--detach', wt, 'HEAD'])
        assert r.returncode == 0, r.stdout
        flags = ['-std=c++17', '-O1', '-I', os.path.join(wt, 'include')] + a.demo_flags.split()
        # demo on the original
        r = run(['g++'] + flags + [demo, '-o', os.path.join(scratch, 'demo_orig')])
        if r.returncode != 0:
            print('demo does not compile on the original:\n' + r.stdout[-2000:])
            return 1
        r0 = run([os.path.join(scratch, 'demo_orig')], timeout=300)
        log.append('demo on original: rc=%d %s' % (r0.returncode, r0.stdout.strip()[-200:]))
        r = run(['git', '-C', wt, 'apply', patch])
        if r.returncode != 0:
            print('patch does not apply:\n' + r.stdout)
            return 1
        stat = run(['git', '-C', wt, 'diff', '--stat']).stdout.strip()
        r = run(['g++'] + flags + [demo, '-o', os.path.join(scratch, 'demo_mut')])
        if r.returncode != 0:
            print('demo does not compile with the change:\n' + r.stdout[-2000:])
            return 1
        try:
            r1 = run([os.path.join(scratch, 'demo_mut')], timeout=300)
            rc1, out1 = r1.returncode, r1.stdout
        except subprocess.TimeoutExpired:
            rc1, out1 = 124, 'timeout (hang)'
        log.append('demo with change: rc=%d %s' % (rc1, out1.strip()[-200:]))
        b = os.path.join(scratch, 'tb')
        run(['cmake', '-G', 'Ninja', '-DCMAKE_BUILD_TYPE=RelWithDebInfo', '-DCMAKE_CXX_FLAGS=-Wno-error', '-S', wt, '-B', b])
        rb = run(['cmake', '--build', b])
        rt = run(['ctest', '--test-dir', b, '-j8'])
        tests_ok = rb.returncode == 0 and rt.returncode == 0
        log.append('unit tests with change: %s' % ('pass' if tests_ok else 'FAIL'))
        good = (r0.returncode == 0) and (rc1 != 0) and tests_ok
        for l in log:
            print(l)
        print(stat)
        if not good:
            print('NOT CONFIRMED')
            return 1
        dst = os.path.join(ROOT, 'seeded', a.sid)
        os.makedirs(dst, exist_ok=True)
        shutil.copy(patch, os.path.join(dst, 'patch.diff'))
        shutil.copy(demo, os.path.join(dst, 'demo.cpp'))
        if os.path.exists(os.path.join(src, 'notes.md')):
            shutil.copy(os.path.join(src, 'notes.md'), os.path.join(dst, 'notes.md'))
        meta = {'id': a.sid, 'property': a.prop, 'origin': 'independent sub-agent given only the property text and a scratch worktree',
                'needs_to_manifest': a.needs, 'demo_flags': a.demo_flags,
                'confirmed': {'patch_applies': True, 'unit_tests_pass_with_change': True, 'demo_passes_on_original': True, 'demo_fails_with_change': True,
                              'what_i_ran': log},
                'expect': 'violation', 'checks': (a.checks.split(',') if a.checks else [a.prop])}
        if a.flavours:
            meta['flavours'] = a.flavours
        with open(os.path.join(dst, 'meta.json'), 'w') as f:
            json.dump(meta, f, indent=1)
        print('CONFIRMED ->', dst)
        return 0
    finally:
        run(['git', '-C', REPO, 'worktree', 'remove', '--force', wt])
        shutil.rmtree(scratch, ignore_errors=True)
        run(['git', '-C', REPO, 'worktree', 'prune'])


if __name__ == '__main__':
    sys.exit(main())
