#!/usr/bin/env python3
"""replay.py <replay file>: rebuilds the flavour the violation was found in (against the current /repo tree) and replays
the minimised plan in a fresh process. Exit 1 + `VIOLATION property=<id> replay=<path>` when it reproduces, 0 when the
plan runs clean, 2 when the history differs from the recorded one."""
import json
import os
import subprocess
import sys

ROOT = os.path.dirname(os.path.dirname(os.path.abspath(__file__)))
sys.path.insert(0, os.path.join(ROOT, 'tools'))
import check  # noqa: E402


def main():
    path = sys.argv[1]
    doc = json.load(open(path))
    fl = doc.get('flavour', 'plain')
    if 'compiler_errors' in doc:
        print('this finding is a compile failure; reproduce with: ' + doc.get('reproduce', 'make -C sim'))
        return 1
    if doc.get('random_grammars'):
        os.environ['VERIF_RANDOM_GRAMMARS'] = doc['random_grammars']     # the fleet the plan was generated over
        check.BUILDROOT = os.path.join(check.BUILDROOT, 'x')
    if not check.build([fl]):
        return 2
    env = dict(os.environ)
    if fl == 'tsan':
        env['TSAN_OPTIONS'] = env.get('TSAN_OPTIONS', 'symbolize=1 suppress_equal_stacks=0 suppress_equal_addresses=0 halt_on_error=0 exitcode=0 report_signal_unsafe=0')
    r = subprocess.run([check.worker_bin(fl), '--replay', path], cwd=ROOT, env=env)
    if r.returncode in (77, 78) or r.returncode < 0:
        print('VIOLATION property=%s replay=%s' % (doc.get('property'), path))
        print('  the replayed run died (rc=%d): %s' % (r.returncode, doc.get('detail', '')))
        return 1
    return r.returncode


if __name__ == '__main__':
    sys.exit(main())
