#!/usr/bin/env python3
"""Reach measure (DESIGN 9.4): line coverage of the repository header under the simulator's workloads.
Builds the 'cov' flavour (clang source-based coverage, fleet TUs only), runs a slice of every property's batch and
reports which lines of include/ctpg/ctpg.hpp that belong to run-time code were never executed.
Writes audit/coverage.json."""
import json
import os
import re
import subprocess
import sys
import tempfile

ROOT = os.path.dirname(os.path.dirname(os.path.abspath(__file__)))
sys.path.insert(0, os.path.join(ROOT, 'tools'))
import check  # noqa: E402

PROPS = {'C06': 6000, 'C08': 6000, 'C09': 6000, 'C10': 6000, 'C14': 800, 'C15': 600, 'C16': 800, 'C18': 6000}


def main():
    if not check.build(['cov']):
        return 2
    binary = check.worker_bin('cov')
    with tempfile.TemporaryDirectory(prefix='ctpg_cov_', dir='/tmp') as tmp:
        procs = []
        for p, n in PROPS.items():
            env = dict(os.environ, LLVM_PROFILE_FILE=os.path.join(tmp, p + '.profraw'))
            procs.append(subprocess.Popen([binary, '--batch', p, '--seed', '4711', '--from', '0', '--to', str(n), '--out', os.path.join(tmp, 'out')],
                                          stdout=subprocess.DEVNULL, stderr=subprocess.DEVNULL, env=env, cwd=ROOT))
        for pr in procs:
            pr.wait()
        raws = [os.path.join(tmp, f) for f in os.listdir(tmp) if f.endswith('.profraw')]
        merged = os.path.join(tmp, 'all.profdata')
        subprocess.run(['llvm-profdata-14', 'merge', '-o', merged] + raws, check=True)
        hdr = os.path.join(check.REPO, 'include', 'ctpg', 'ctpg.hpp')
        show = subprocess.run(['llvm-cov-14', 'show', binary, '-instr-profile=' + merged, hdr, '-show-line-counts-or-regions=false', '-use-color=false'],
                              stdout=subprocess.PIPE, text=True, errors='replace').stdout
    # one text section per instantiation group; take for every line the MAX count over all sections
    best = {}
    for line in show.splitlines():
        m = re.match(r'\s*(\d+)\|\s*([0-9.]+[kKmMGE]?)?\|(.*)$', line)
        if not m:
            continue
        ln = int(m.group(1))
        cnt = m.group(2)
        if cnt is None:
            continue
        v = float(re.sub(r'[kKmMGE]', '', cnt)) * (1000 if cnt[-1] in 'kK' else 1000000 if cnt[-1] in 'mM' else 1)
        best[ln] = max(best.get(ln, 0), v)
    src = open(hdr).read().splitlines()
    uncovered = [ln for ln, v in sorted(best.items()) if v == 0]
    report = {'header': hdr, 'lines_with_counts': len(best), 'lines_never_executed': len(uncovered),
              'never_executed': [{'line': ln, 'text': src[ln - 1].strip()[:120]} for ln in uncovered]}
    os.makedirs(os.path.join(ROOT, 'audit'), exist_ok=True)
    with open(os.path.join(ROOT, 'audit', 'coverage.json'), 'w') as f:
        json.dump(report, f, indent=1)
    print('%d lines instrumented, %d never executed at run time' % (len(best), len(uncovered)))
    for e in report['never_executed']:
        print('%5d  %s' % (e['line'], e['text']))
    return 0


if __name__ == '__main__':
    sys.exit(main())
